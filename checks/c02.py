"""C02 - evaluation is a pure, repeatable function of formula and registered bindings.

Histories of operations on long-lived parsers (evaluations that succeed, fail, are interrupted
asynchronously at a chosen step, or are aborted by a callback; rebinding; debug toggles; clock
jumps; parsers built mid-history) with four oracles:
  H1 every outcome equals the outcome on a fresh parser carrying the same bindings,
  H2 ... also when that reference runs with the other debug setting,
  H3 host-supplied values are deep-equal before and after every evaluation,
  H4 the census of live objects does not grow with the number of evaluations.
"""
import datetime
import gc
import sys
import time
from collections import Counter

from hxsim import canon, formgen, scen, seams
from hxsim import values as V
from hxsim.host import EVENTS, World
from hxsim.stepclock import SimAbort, SimTimeout, StepBudgetExceeded, StepClock

PROPERTY = 'C02'
STREAMS = {
    'history': {'quick': 5000, 'thorough': 200000, 'chunk': 150},
    'hostlists': {'quick': 2500, 'thorough': 40000, 'chunk': 100},   # H3 slice: host lists into every function
    # an asynchronous interrupt at EVERY step of an evaluation in turn, probes judged after each
    'intsweep': {'quick': 100, 'thorough': 2500, 'chunk': 4, 'selftest_max': 6},
    # the live-object census on generated formulas: one formula repeated, growth measured
    'leak': {'quick': 1600, 'thorough': 60000, 'chunk': 40, 'selftest_max': 30},
    # heavy re-registration in a tiny namespace (names that shadow built-ins included), judged after every step
    'rebind': {'quick': 2000, 'thorough': 100000, 'chunk': 100},
    # ten evaluations of ONE built-in (walking the registry) with arguments by parameter name, each judged against
    # a pristine process: state a function keeps for itself at module level
    'fnhistory': {'quick': 1100, 'thorough': 60000, 'chunk': 60},
}

CLOCKS = ['2024-02-29T13:14:15.161718', '2024-02-29T23:59:59.999999', '2024-03-01T00:00:00', '1900-01-01T00:00:00',
          '1900-02-28T12:00:00', '1900-03-01T00:00:01', '9999-12-31T23:59:59', '1970-01-01T00:00:00',
          '2000-01-01T00:00:00', '2023-12-31T23:59:59.5', '2038-01-19T03:14:08', '1999-12-31T00:00:00']

CLOCKY = ['NOW()', 'TODAY()', 'RAND()', 'RANDBETWEEN(1,100)', 'YEAR("March 5")', 'NOW()-TODAY()', 'TODAY()+1',
          'YEAR(NOW())', 'HOUR("10:30 PM")', 'DAYS(TODAY(),"2020-01-01")', 'RAND()*RAND()', 'MONTH("5 March")',
          'DATEVALUE("March 5")', 'TEXT(NOW(),"yyyy")', 'NOW()=NOW()', 'INT(RAND()*10)']


def config(tier, seed):
    return {}


# ---------------------------------------------------------------- generation
def _gen_formula(rng, env):
    r = rng.random()
    if r < 0.12:
        f = rng.choice(CLOCKY)
        if rng.random() < 0.5:
            f = f + rng.choice(['+', '&', '=']) + formgen.g3_tree(rng, env, 1)
        return f
    if r < 0.20:
        return formgen.g2_soup(rng) if rng.random() < 0.7 else formgen.g1_unicode(rng)
    f = formgen.g3_tree(rng, env)
    if r < 0.35:
        return formgen.g4_damage(rng, f)
    return f


def gen_intsweep(rng, i):
    slot = scen.gen_slot(rng, fault=rng.choice([0.0, 0.3]), hostile=False, excs=scen.BENIGN_EXC)
    slot['functions']['ABORT'] = [{'a': 'abort'}]
    env = scen.slot_env(slot)
    victim = _gen_formula(rng, env) if rng.random() < 0.7 else rng.choice(['1/0+zz_top', 'SUM(#N/A,1)', '1+', 'A1:B2', 'NOSUCH(1)'])
    probes = [_gen_formula(rng, env) for _ in range(2)] + [rng.choice(['1+1', 'zz_top', '1/0', 'SUM(A1:B2)', 'NOW()', '#REF!'])]
    return {'engine': 'intsweep', 'slots': [slot], 'victim': victim, 'probes': probes, 'kind': rng.choice(['timeout', 'abort']),
            'clock': rng.choice(CLOCKS), 'rand': 0.25, 'tick_us': None}


def execute_intsweep(sc, stats):
    clock = StepClock()
    spec = sc['slots'][0]
    elems = scen.host_elements(spec)
    refs = []
    for p in sc['probes']:
        _set_env(sc, sc['clock'])
        refs.append(_outcome(World([scen.clone(spec)]), clock, 0, p, elems))
    world = World([scen.clone(spec)])
    ks = sc.get('ks')
    k = 0
    vio = []
    pos = 0
    while True:
        if ks is not None:
            if pos >= len(ks):
                break
            k = ks[pos]
            pos += 1
        else:
            k += 1
            if k > 6000:
                break
        exc = SimTimeout('t') if sc['kind'] == 'timeout' else SimAbort('a')
        _set_env(sc, sc['clock'])
        _outcome(world, clock, 0, sc['victim'], elems, interrupt=(k, exc))
        if clock.fired is None:
            if ks is None:
                break                      # k is beyond the end of the evaluation: every point has been tried
            continue
        stats['fault:interrupt_%s' % sc['kind']] += 1
        stats['fault:interrupt_sweep_point'] += 1
        for j, p in enumerate(sc['probes']):
            _set_env(sc, sc['clock'])
            got = _outcome(world, clock, 0, p, elems)
            stats['evals'] += 1
            if got != refs[j]:
                vio.append({'invariant': 'H1_history_dependence', 'sig': 'H1',
                            'detail': {'interrupted_formula': _esc(sc['victim']), 'interrupt_at_step': k, 'kind': sc['kind'],
                                       'where': clock.rel(clock.fired[0]) + ':%d' % clock.fired[1] if clock.fired else None,
                                       'probe': _esc(p), 'after_interrupt': got, 'fresh_parser': refs[j]}})
                break
        if vio:
            if ks is None:
                sc['ks'] = list(range(1, k + 1))
            break
    stats['steps'] += clock.steps
    sc['_nt'] = [1] if k > 1 else []
    return vio


def gen_leak(rng, i):
    slot = scen.gen_slot(rng, fault=rng.choice([0.0, 0.0, 0.3]), hostile=False, excs=scen.BENIGN_EXC)
    env = scen.slot_env(slot)
    names = formgen.fn_names()
    r = rng.random()
    if r < 0.5:
        # every built-in in turn, arguments by parameter name, often with an error value among them
        f = formgen.builtin_call(rng, env, 1, names[i % len(names)], force_typed=rng.random() < 0.7)
        if rng.random() < 0.4:
            f = f[:-1] + (',' if not f.endswith('()') else '') + rng.choice(['1/0', '#N/A', 'NA()', 'zz_top', '#REF!', 'SQRT(-1)']) + ')'
        if rng.random() < 0.3:
            f = rng.choice(['IFERROR(%s,"n/a")', 'ISERROR(%s)', 'IFNA(%s,0)', 'IF(ISERR(%s),1,2)']) % f
    else:
        f = _gen_formula(rng, env)
    return {'engine': 'leak', 'slots': [slot], 'formula': formgen.tame(f), 'clock': CLOCKS[0], 'rand': 0.25, 'tick_us': None,
            'debug': rng.random() < 0.2}


def execute_leak(sc, stats):
    spec = scen.clone(sc['slots'][0])
    spec['debug'] = bool(sc.get('debug'))
    world = World([spec])
    _set_env(sc, sc['clock'])
    f = sc['formula']
    WARM, N, TOL = 12, 40, 8

    def rep(n):
        for _ in range(n):
            try:
                world.evaluate(0, f)
            except BaseException as e:
                if isinstance(e, (KeyboardInterrupt, SystemExit)):
                    raise
    clock = StepClock()
    out = _outcome(world, clock, 0, f, scen.host_elements(spec))     # traced once: guards against hangs
    if out == ['budget']:
        return []
    rep(WARM)
    c0 = _census()
    rep(N)
    c1 = _census()
    rep(2 * N)
    c2 = _census()
    stats['evals'] += WARM + 3 * N + 1
    stats['steps'] += clock.steps
    stats['probe:leak_class[%s]' % ('error' if (out[0] == 'record' and out[3] != ['none']) else out[0] if out[0] != 'record' else 'value')] += 1
    d1 = sum(c1.values()) - sum(c0.values())
    d2 = sum(c2.values()) - sum(c1.values())
    ft2 = (c2['frame'] + c2['traceback']) - (c1['frame'] + c1['traceback'])
    sc['_nt'] = [1]
    if (d2 > TOL and d1 > TOL // 2) or ft2 > TOL:
        grow = [(t, c2[t] - c1[t]) for t in sorted(c2) if c2[t] - c1[t] > 0]
        return [{'invariant': 'H4_retention', 'sig': 'H4:generated',
                 'detail': {'formula': _esc(f), 'what': 'gc-tracked objects grow by %d per %d repetitions, then %d per %d (frames/tracebacks %d): %s'
                                                       % (d1, N, d2, 2 * N, ft2, grow[:6])}}]
    return []


RB_VARS = ['va', 'vb', 'Rate']
RB_FNS = ['FA', 'SUM', 'LEN']
RB_FORMS = ['va', 'vb+1', 'Rate&"x"', 'FA()', 'SUM(1,2)', 'LEN("abc")', 'A1', 'B2:A1', 'A1+va', 'SUM(A1:B2)', 'FA()&SUM(3)', 'IF(va,LEN("ab"),A1)',
            'TRUE', '{1,2}', 'SUM(va,vb)', 'LEN(Rate)', 'zz_top', 'PI()']


def gen_rebind(rng, i):
    ops = []
    n = [0]

    def val():
        n[0] += 1
        return rng.choice([V.I(1000 + n[0]), V.S('t%d' % n[0]), V.I(0), V.FALSE, V.NONE, V.L(V.I(n[0]), V.I(2))])
    focus = None       # the name touched last: half of the evaluations use it, so that every (re)binding is looked at
    for _ in range(rng.choice([6, 10, 16, 24])):
        r = rng.random()
        if r < 0.14:
            focus = rng.choice(RB_VARS)
            ops.append(['var', focus, val()])
        elif r < 0.28:
            focus = rng.choice(RB_FNS)
            ops.append(['fn', focus, [{'a': 'ret', 'v': val()}]])
        elif r < 0.40:
            focus = rng.choice(RB_FNS)
            ops.append(['unfn', focus])
        elif r < 0.50:
            ops.append(['on', rng.choice(EVENTS), [{'a': rng.choice(['set', 'set', 'noset']), 'v': [val()]}]])
        elif r < 0.58:
            ops.append(['off', rng.choice(EVENTS)])
        else:
            pool = [f for f in RB_FORMS if focus and focus in f]
            ops.append(['eval', rng.choice(pool) if pool and rng.random() < 0.5 else rng.choice(RB_FORMS)])
    for f in rng.sample(RB_FORMS, 5):
        ops.append(['eval', f])
    return {'engine': 'rebind', 'ops': ops, 'clock': CLOCKS[0], 'rand': 0.25, 'tick_us': None, 'debug': rng.random() < 0.2,
            'ref_mode': 'cleanroom' if rng.random() < 0.3 else 'inprocess', 'slots': []}


def execute_rebind(sc, stats):
    spec = {'debug': bool(sc.get('debug')), 'variables': {}, 'functions': {}, 'listeners': {}}
    world = World([scen.clone(spec)])
    slot = world.slots[0]
    clock = StepClock()
    vio = []
    for k, op in enumerate(sc['ops']):
        kind = op[0]
        if kind == 'var':
            spec['variables'][op[1]] = op[2]
            slot.bind_variable(op[1], op[2])
        elif kind == 'fn':
            spec['functions'][op[1]] = op[2]
            slot.bind_function(op[1], op[2])
        elif kind == 'unfn':
            spec['functions'].pop(op[1], None)
            slot.parser.set_function(op[1], None)
            stats['fault:unset_function'] += 1
        elif kind == 'on':
            lst = spec['listeners'].setdefault(op[1], [])
            script = [dict(a) for a in op[2]]
            for a in script:
                if a['a'] == 'noset':
                    a.pop('v', None)
            slot.bind_listener(op[1], len(lst), script)
            lst.append(script)
        elif kind == 'off':
            spec['listeners'].pop(op[1], None)
            slot.parser.off(op[1])
        elif kind == 'eval':
            _set_env(sc, sc['clock'])
            got = _outcome(world, clock, 0, op[1], 200)
            if sc.get('ref_mode') == 'cleanroom':
                from hxsim import cleanroom
                ref = cleanroom.call('checks.c02', 'cleanroom_eval', scen.clone(spec), op[1], sc['clock'], None, sc['rand'])
            else:
                _set_env(sc, sc['clock'])
                ref = _outcome(World([scen.clone(spec)]), clock, 0, op[1], 200)
            stats['evals'] += 1
            if got != ref:
                vio.append({'invariant': 'H1_history_dependence', 'sig': 'H1',
                            'detail': {'op': k, 'formula': _esc(op[1]), 'in_history': got, 'fresh_parser': ref,
                                       'ops_before': [o[:2] for o in sc['ops'][:k]][-10:]}})
                break
    stats['steps'] += clock.steps
    stats['fault:rebind_function'] += sum(1 for o in sc['ops'] if o[0] == 'fn')
    sc['_nt'] = [1]
    return vio


def gen_fnhistory(rng, i):
    names = formgen.fn_names()
    name = names[i % len(names)]
    slot = {'debug': False, 'variables': {'v_0': V.L(V.I(3), V.I(1), V.I(2)), 'v_1': V.I(7)}, 'functions': {},
            'listeners': {'callCellValue': [[{'a': 'table'}]], 'callRangeValue': [[{'a': 'set', 'v': [V.L(V.L(V.I(1), V.I(2)), V.L(V.I(3), V.I(4)))]}]]}}
    env = scen.slot_env(slot)
    forms = []
    for _ in range(rng.choice([6, 10, 14])):
        f = formgen.tame(formgen.builtin_call(rng, env, 1, name, force_typed=rng.random() < 0.85))
        if rng.random() < 0.25:
            f = rng.choice(['%s&""', 'ISERROR(%s)', '%s=%s', 'LEN(%s&"")']).replace('%s', f)
        forms.append(f)
    clock = rng.choice(CLOCKS)
    return {'engine': 'fnhistory', 'slots': [slot], 'formulas': forms, 'clock': clock, 'rand': 0.25, 'tick_us': None, 'fn': name}


def execute_fnhistory(sc, stats):
    from hxsim import cleanroom
    spec = sc['slots'][0]
    world = World([scen.clone(spec)])
    clock = StepClock()
    elems = scen.host_elements(spec)
    for k, f in enumerate(sc['formulas']):
        _set_env(sc, sc['clock'])
        got = _outcome(world, clock, 0, f, elems)
        ref = cleanroom.call('checks.c02', 'cleanroom_eval', scen.clone(spec), f, sc['clock'], None, sc['rand'])
        stats['evals'] += 1
        if got != ref:
            stats['steps'] += clock.steps
            return [{'invariant': 'H1_history_dependence', 'sig': 'H1',
                     'detail': {'op': k, 'formula': _esc(f), 'in_history': got, 'fresh_parser': ref, 'function': sc.get('fn'),
                                'earlier_formulas': [_esc(x) for x in sc['formulas'][:k]][-8:]}}]
    stats['steps'] += clock.steps
    stats['fault:reference_in_pristine_process'] += 1
    sc['_nt'] = [1]
    return []


def gen(stream, rng, i, cfg):
    if stream == 'fnhistory':
        return gen_fnhistory(rng, i)
    if stream == 'rebind':
        return gen_rebind(rng, i)
    if stream == 'leak':
        return gen_leak(rng, i)
    if stream == 'intsweep':
        return gen_intsweep(rng, i)
    if stream == 'hostlists':
        return gen_hostlists(rng, i)
    nslots = rng.choice([1, 1, 2])
    fault = rng.choice([0.0, 0.1, 0.3, 0.6])
    slots = [scen.gen_slot(rng, fault=fault, hostile=rng.random() < 0.3, prefix='') for _ in range(nslots)]
    for s in slots:
        s['functions']['ABORT'] = [{'a': 'abort'}]
    specs = scen.clone(slots)
    nops = rng.choice([5, 8, 12, 20, 30, 60]) if rng.random() < 0.6 else rng.randrange(5, 61)
    w_int = rng.choice([0.0, 0.1, 0.25])
    w_rebind = rng.choice([0.0, 0.08, 0.2])
    clock = rng.choice(CLOCKS)
    ops = []
    for _ in range(nops):
        s = rng.randrange(nslots)
        env = scen.slot_env(specs[s])
        r = rng.random()
        if r < w_int:
            f = _gen_formula(rng, env)
            kind = rng.choice(['timeout', 'timeout', 'abort'])
            k = rng.choice([1, 2, 3, 5, 8]) if rng.random() < 0.2 else rng.randrange(1, 1500)
            ops.append(['eval_int', s, f, k, kind, clock])
        elif r < w_int + 0.05:
            f = 'ABORT()' if rng.random() < 0.3 else formgen.g3_tree(rng, env, 1) + rng.choice(['+', '&', ',']) + 'ABORT()'
            if rng.random() < 0.5:
                f = 'SUM(1,%s)' % f
            ops.append(['eval_abort', s, f, clock])
        elif r < w_int + 0.05 + w_rebind:
            k = rng.randrange(5)
            if k == 4:
                # take a custom function away again (set_function(name, None)): the built-in, if any, is back
                name = rng.choice(sorted(specs[s]['functions']) + ['SUM', 'F0', 'LEN'])
                if name == 'ABORT':
                    name = 'SUM'
                specs[s]['functions'].pop(name, None)
                ops.append(['unset_fn', s, name])
            elif k == 0:
                name = rng.choice(sorted(specs[s]['variables']) + ['v_0', 'v_9'])
                val = scen.pick_value(rng, False)
                specs[s]['variables'][name] = val
                ops.append(['rebind_var', s, name, val])
            elif k == 1:
                name = rng.choice([n for n in sorted(specs[s]['functions']) if n != 'ABORT'] + ['F0', 'F3', 'SUM', 'LEN'])
                script = scen.gen_fn_script(rng, fault, False, scen.BENIGN_EXC)
                specs[s]['functions'][name] = script
                ops.append(['rebind_fn', s, name, script])
            elif k == 2:
                ev = rng.choice(EVENTS)
                script = scen.gen_listener_script(rng, ev, fault, False, scen.BENIGN_EXC)
                specs[s]['listeners'].setdefault(ev, []).append(script)
                ops.append(['add_listener', s, ev, script])
            else:
                ev = rng.choice(EVENTS)
                specs[s]['listeners'].pop(ev, None)
                ops.append(['off', s, ev])
        elif r < w_int + 0.05 + w_rebind + 0.04:
            specs[s]['debug'] = not specs[s]['debug']
            ops.append(['debug', s])
        elif r < w_int + 0.05 + w_rebind + 0.07:
            ops.append(['build'])
        else:
            if rng.random() < 0.35:
                clock = _jump(rng, clock)
            f = _gen_formula(rng, env)
            if rng.random() < 0.15 and ops:
                # repeat an earlier formula (same text, possibly different bindings by now)
                prev = [o for o in ops if o[0] == 'eval']
                if prev:
                    f = rng.choice(prev)[2]
            ops.append(['eval', s, f, clock, bool(rng.random() < 0.5)])
    return {'slots': slots, 'ops': ops, 'rand': rng.choice([0.0, 0.25, 0.5, 0.75, 0.999999]),
            'tick_us': rng.choice([None, None, 1, 1000000, 86400000000]),
            'ref_phase': rng.choice(['before', 'after', 'before_reversed', 'after_reversed']),
            'ref_mode': 'cleanroom' if rng.random() < 0.35 else 'inprocess',
            # a host that runs with warnings escalated to errors (python -W error): a configuration like any other
            'warnings_as_errors': rng.random() < 0.12}


def _jump(rng, cur):
    r = rng.random()
    if r < 0.5:
        return rng.choice(CLOCKS)
    d = datetime.datetime.fromisoformat(cur)
    delta = datetime.timedelta(seconds=rng.choice([1, 59, 3600, 86399, 86400, 31 * 86400, 366 * 86400]) * rng.choice([1, -1]))
    try:
        d2 = d + delta
        if d2.year < 1900:
            return cur
        return d2.isoformat()
    except OverflowError:
        return cur


HOSTLISTS = [V.L(V.I(3), V.I(1), V.I(2)), V.L(V.L(V.I(3), V.I(1)), V.L(V.I(2), V.I(0))), V.L(V.S('b'), V.S('a'), V.S('c')),
             V.L(V.F(2.5), V.I(-1), V.TRUE, V.S('7'), V.NONE), V.L(V.L(V.I(5), V.S('b'), V.NONE), V.L(V.I(2), V.S('a'), V.F(0.5))),
             V.L(V.I(9), V.I(9), V.I(1), V.I(4)), {'t': 'tuple', 'v': [V.I(2), V.I(1)]}, V.L(V.L(V.I(1)), V.L(V.I(0)))]


def gen_hostlists(rng, i):
    """Host lists (as variable, as cell/range value, as custom-function result) at every argument
    position of every function and operator; the oracle of interest is H3."""
    names = formgen.fn_names()
    slot = {'debug': False, 'variables': {}, 'functions': {}, 'listeners': {}}
    for k in range(3):
        slot['variables']['hl_%d' % k] = rng.choice(HOSTLISTS)
    slot['functions']['HL'] = [{'a': 'ret', 'v': rng.choice(HOSTLISTS)}]
    slot['listeners']['callRangeValue'] = [[{'a': 'set', 'v': [rng.choice(HOSTLISTS)]}]]
    slot['listeners']['callCellValue'] = [[{'a': 'set', 'v': [rng.choice(HOSTLISTS)]}]]
    atoms = ['hl_0', 'hl_1', 'hl_2', 'HL()', 'A1:B2', 'C3']
    fill = ['1', '2', '0', '"a"', 'TRUE', '-1', '0.5', '">1"', '{1,2}', '3']
    ops = []
    base = (i * 7) % len(names)
    for j in range(24):
        r = rng.random()
        if r < 0.75:
            name = names[(base + j) % len(names)] if rng.random() < 0.7 else rng.choice(names)
            ar = rng.randrange(1, 5)
            pos = rng.randrange(ar)
            args = [rng.choice(atoms) if (p == pos or rng.random() < 0.3) else rng.choice(fill) for p in range(ar)]
            f = '%s(%s)' % (name, ','.join(args))
        elif r < 0.9:
            f = rng.choice(atoms) + rng.choice(formgen.GRAMMAR_OPS) + rng.choice(atoms + fill)
        elif r < 0.95:
            f = '-' + rng.choice(atoms)
        else:
            f = '{%s}' % rng.choice([',', ';']).join(rng.choice(atoms + fill) for _ in range(3))
        ops.append(['eval', 0, f, CLOCKS[0], False])
    return {'slots': [slot], 'ops': ops, 'rand': 0.25, 'tick_us': None, 'ref_phase': 'after'}


# ---------------------------------------------------------------- execution
def _outcome(world, clock, slot, f, elems, interrupt=None):
    """Evaluate under the step clock; returns (canonical outcome, fired?)."""
    B = scen.budget(f, elems)
    clock.arm(budget=B, interrupt=interrupt)
    try:
        ret = world.evaluate(slot, f)
        out = canon.canon_outcome(ret)
    except StepBudgetExceeded:
        out = ['budget']
    except (SimAbort, SimTimeout):
        out = ['interrupted']
    except BaseException as e:
        if isinstance(e, (KeyboardInterrupt, SystemExit)):
            raise
        out = canon.canon_raised(e)
    finally:
        clock.disarm()
    return out


def _set_env(sc, iso):
    seams.CLOCK.set(iso)
    seams.CLOCK.tick = None if sc.get('tick_us') is None else datetime.timedelta(microseconds=sc['tick_us'])
    seams.RANDOM.c = sc['rand']


def _references(sc, stats, clock, reverse=False):
    """Outcome of every eval op on a fresh parser carrying the slot's bindings at that point.
    The references are evaluated in operation order or (reverse) in the opposite order, so that state
    kept outside the parser objects (module level) cannot affect history and references alike."""
    specs = scen.clone(sc['slots'])
    todo = []
    for k, op in enumerate(sc['ops']):
        kind = op[0]
        if kind == 'eval':
            s, f, iso, flip = op[1], op[2], op[3], op[4]
            spec = scen.clone(specs[s])
            if flip:
                spec['debug'] = not spec['debug']
            todo.append((k, spec, f, iso, flip))
        elif kind == 'rebind_var':
            specs[op[1]]['variables'][op[2]] = op[3]
        elif kind == 'rebind_fn':
            specs[op[1]]['functions'][op[2]] = op[3]
        elif kind == 'unset_fn':
            specs[op[1]]['functions'].pop(op[2], None)
        elif kind == 'add_listener':
            specs[op[1]]['listeners'].setdefault(op[2], []).append(op[3])
        elif kind == 'off':
            specs[op[1]]['listeners'].pop(op[2], None)
        elif kind == 'debug':
            specs[op[1]]['debug'] = not specs[op[1]]['debug']
    refs = {}
    if sc.get('ref_mode') == 'cleanroom':
        # every reference in its own process forked from a pristine zygote: nothing evaluated before it
        from hxsim import cleanroom
        for k, spec, f, iso, flip in todo:
            refs[k] = (cleanroom.call('checks.c02', 'cleanroom_eval', spec, f, iso, sc.get('tick_us'), sc['rand'],
                                      bool(sc.get('warnings_as_errors'))), flip)
            stats['ref_evals_cleanroom'] += 1
        stats['fault:reference_in_pristine_process'] += 1
        return refs
    for k, spec, f, iso, flip in (reversed(todo) if reverse else todo):
        w = World([spec])
        _set_env(sc, iso)
        refs[k] = (_outcome(w, clock, 0, f, scen.host_elements(spec)), flip)
        stats['ref_evals'] += 1
    return refs


def cleanroom_eval(spec, f, iso, tick_us, rand, warnings_as_errors=False):
    """Runs in a process that has never evaluated anything (see hxsim/cleanroom.py)."""
    if warnings_as_errors:
        import warnings
        warnings.simplefilter('error')
    w = World([spec])
    _set_env({'tick_us': tick_us, 'rand': rand}, iso)
    return _outcome(w, StepClock(), 0, f, scen.host_elements(spec))


def execute(sc, stats):
    from hotxlfp import Parser
    want_reach = (sc.get('_run', 0) % 16 == 0)
    clock = StepClock(reach=want_reach)
    vio = []
    refs = None
    reads0 = seams.CLOCK.reads
    phase = sc.get('ref_phase', 'after')
    if phase.startswith('before'):
        refs = _references(sc, stats, clock, reverse=phase.endswith('reversed'))
    world = World(scen.clone(sc['slots']))
    live_specs = scen.clone(sc['slots'])
    got = {}
    first_iso = None
    for k, op in enumerate(sc['ops']):
        kind = op[0]
        if kind == 'eval':
            s, f, iso = op[1], op[2], op[3]
            _set_env(sc, iso)
            elems = scen.host_elements(live_specs[s])
            snap0 = world.host_snapshot()
            got[k] = _outcome(world, clock, s, f, elems)
            snap1 = world.host_snapshot()
            stats['evals'] += 1
            if snap0 != snap1:
                vio.append({'invariant': 'H3_host_value_mutated', 'sig': 'H3',
                            'detail': {'op': k, 'formula': _esc(f), 'before': snap0[:400], 'after': snap1[:400]}})
            if got[k][0] == 'record' and got[k][3] != ['none']:
                stats['probe:error_outcome'] += 1
            elif got[k][0] == 'raised':
                stats['probe:exception_escaped_parse'] += 1
            elif got[k][0] == 'budget':
                stats['probe:budget_hit'] += 1
        elif kind == 'eval_int':
            s, f, kstep, ikind, iso = op[1], op[2], op[3], op[4], op[5]
            _set_env(sc, iso)
            exc = SimTimeout('simulated timeout') if ikind == 'timeout' else SimAbort('simulated abort')
            _outcome(world, clock, s, f, scen.host_elements(live_specs[s]), interrupt=(kstep, exc))
            if clock.fired is not None:
                stats['fault:interrupt_%s' % ikind] += 1
                stats['probe:interrupt_in[%s]' % clock.rel(clock.fired[0]).split('/')[-1]] += 1
            else:
                stats['interrupt_after_end'] += 1
        elif kind == 'eval_abort':
            _set_env(sc, op[3])
            _outcome(world, clock, op[1], op[2], scen.host_elements(live_specs[op[1]]))
        elif kind == 'rebind_var':
            live_specs[op[1]]['variables'][op[2]] = op[3]
            world.slots[op[1]].bind_variable(op[2], op[3])
            stats['fault:rebind_variable'] += 1
        elif kind == 'rebind_fn':
            live_specs[op[1]]['functions'][op[2]] = op[3]
            world.slots[op[1]].bind_function(op[2], op[3])
            stats['fault:rebind_function'] += 1
        elif kind == 'unset_fn':
            live_specs[op[1]]['functions'].pop(op[2], None)
            world.slots[op[1]].parser.set_function(op[2], None)
            stats['fault:unset_function'] += 1
        elif kind == 'add_listener':
            lst = live_specs[op[1]]['listeners'].setdefault(op[2], [])
            world.slots[op[1]].bind_listener(op[2], len(lst), op[3])
            lst.append(op[3])
            stats['fault:rebind_listener'] += 1
        elif kind == 'off':
            live_specs[op[1]]['listeners'].pop(op[2], None)
            world.slots[op[1]].parser.off(op[2])
            stats['fault:listener_off'] += 1
        elif kind == 'debug':
            p = world.slots[op[1]].parser
            p.debug = not p.debug
            live_specs[op[1]]['debug'] = not live_specs[op[1]]['debug']
            stats['fault:debug_toggle'] += 1
        elif kind == 'build':
            Parser()
            stats['fault:parser_built_mid_history'] += 1
        if kind in ('eval', 'eval_int', 'eval_abort'):
            iso = op[3] if kind != 'eval_int' else op[5]
            if first_iso is not None and iso != first_iso:
                stats['fault:clock_jump_forward' if iso > first_iso else 'fault:clock_jump_back'] += 1
            first_iso = iso
            stats['probe:clock[%s]' % iso[:10]] += 1
    for kname, n in world.fired.items():
        stats['fault:' + kname] += n
    if sc.get('tick_us') is not None and seams.CLOCK.reads > reads0:
        stats['fault:clock_tick'] += 1
    if refs is None:
        refs = _references(sc, stats, clock, reverse=phase.endswith('reversed'))
    for k in sorted(got):
        ref, flipped = refs[k]
        if got[k] != ref:
            inv = 'H2_debug_dependence' if flipped else 'H1_history_dependence'
            op = sc['ops'][k]
            vio.append({'invariant': inv, 'sig': inv[:2],
                        'detail': {'op': k, 'formula': _esc(op[2]), 'in_history': got[k], 'fresh_parser': ref,
                                   'clock': op[3], 'reference_debug_flipped': flipped}})
            break
    stats['steps'] += clock.steps
    sc['_nt'] = [canon.digest_int([sc['ops'][k][2], got[k]]) for k in got if got[k][0] == 'record' and got[k][2] != ['none']]
    if want_reach:
        sc['_reach'] = clock.reach_list()
    return vio


def _esc(f):
    return f.encode('unicode_escape').decode('ascii')[:300]


def nontrivial(sc, stats):
    nt = sc.pop('_nt', [])
    # non-trivial history: at least one judged evaluation produced a value, after at least one earlier operation
    if sc.get('engine') == 'intsweep':
        return canon.digest_int([sc['slots'], sc['victim'], sc['probes']]) if nt else None
    if sc.get('engine') == 'leak':
        return canon.digest_int([sc['slots'], sc['formula']]) if nt else None
    if sc.get('engine') == 'rebind':
        return canon.digest_int(sc['ops'])
    if sc.get('engine') == 'fnhistory':
        return canon.digest_int(sc['formulas'])
    if not nt or len(sc['ops']) < 2:
        return None
    return canon.digest_int([sc['slots'], sc['ops']])


# ---------------------------------------------------------------- H4: live-object census
CENSUS_CLASSES = [
    ('value', '1+2*3&"x"', None), ('function_value', 'SUM({1,2,3},v_0)+LEN("abc")', None),
    ('error_value', '1/0', None), ('error_literal', '#REF!', None), ('error_from_function', 'SUM(#N/A,1)', None),
    ('syntax_error', '1+', None), ('syntax_error_deep', 'SUM(1,(2+3)*', None), ('lexer_error', '1 ~ 2', None),
    ('unknown_name', 'zz_top+1', None), ('unknown_function', 'NOSUCH(1,2)', None), ('type_error_in_builtin', 'ABS("abc")+SQRT(-1)', None),
    ('callback_raise', '1+FR()', None), ('callback_raise_xl', 'SUM(1,FX())', None), ('callback_syntaxerror', 'FS()+1', None),
    ('listener_raise', 'A1+1', 'cell_raise'), ('callback_hostile', 'FH()', None), ('range_value', 'SUM(A1:B2)', 'range'),
    ('aborted', 'SUM(1,ABORT())', None), ('interrupted_timeout', 'SUM({1,2,3},v_0)+LEN("abc")*2', ('timeout', 90)),
    ('interrupted_abort', 'SUM({1,2,3},v_0)+LEN("abc")*2', ('abort', 140)), ('interrupted_in_error', 'SUM(1,FX())+1', ('timeout', 200)),
    ('distinct_formulas', None, None), ('distinct_failing_formulas', None, None), ('debug_error', '1/0+zz_top', 'debug'),
    ('distinct_failing_formulas_debug', None, 'debug'),
    ('nested_other', 'FN()+1', None),
    # failing evaluations AFTER an evaluation that was cut short (the cut itself is the prelude, not repeated)
    ('errors_after_callback_abort', '1/0+zz_top', 'prelude:abort'),
    ('errors_after_interrupt_sweep_abort', '#REF!', 'prelude:sweep_abort'),
    ('errors_after_interrupt_sweep_timeout', 'SUM(#N/A,1)', 'prelude:sweep_timeout'),
    ('errors_after_failed_nested', '1/0+zz_top', 'prelude:nested_fail'),
]


def _census_slot(extra):
    slot = {'debug': extra == 'debug', 'variables': {'v_0': V.L(V.I(1), V.I(2))},
            'functions': {'FR': [{'a': 'raise', 'e': 'ValueError', 'm': 'boom'}],
                          'FX': [{'a': 'raise', 'e': 'XL:#N/A'}], 'FS': [{'a': 'raise', 'e': 'SyntaxError', 'm': 'x'}],
                          'FH': [{'a': 'ret', 'v': {'t': 'xlerr', 'v': '#FOO!'}}], 'ABORT': [{'a': 'abort'}],
                          'FN': [{'a': 'nested', 'slot': 1, 'f': '1/0'}]},
            'listeners': {}}
    if extra == 'cell_raise':
        slot['listeners']['callCellValue'] = [[{'a': 'raise', 'e': 'KeyError', 'm': 'k'}]]
    if extra == 'range':
        slot['listeners']['callRangeValue'] = [[{'a': 'set', 'v': [V.L(V.L(V.I(1), V.I(2)), V.L(V.I(3), V.I(4)))]}]]
    return slot


def _census():
    gc.collect()
    c = Counter()
    for o in gc.get_objects():
        c[type(o).__name__] += 1
    return c


def _prelude(world, clock, kind, stats):
    """Evaluations cut short before the census starts: by a callback raising a BaseException, or by an
    asynchronous interrupt at EVERY step of a failing evaluation in turn."""
    if kind == 'abort':
        for f in ('SUM(1,ABORT())', 'ABORT()+1/0', '1/0+ABORT()'):
            try:
                world.evaluate(0, f)
            except SimAbort:
                pass
    elif kind == 'nested_fail':
        try:
            world.evaluate(0, 'FN()+ABORT()')
        except SimAbort:
            pass
    else:
        for f in ('1/0+zz_top', 'SUM(#N/A,1)', '1+', 'FR()'):
            k = 1
            while k < 5000:
                exc = SimAbort('a') if kind == 'sweep_abort' else SimTimeout('t')
                clock.arm(budget=200000, interrupt=(k, exc))
                try:
                    world.evaluate(0, f)
                except (SimAbort, SimTimeout):
                    pass
                except Exception:
                    pass
                finally:
                    fired = clock.fired is not None
                    clock.disarm()
                if not fired:
                    break
                stats['fault:census_prelude_interrupt'] += 1
                k += 1


def census_task(arg):
    """Runs in one fresh worker.  For each outcome class: warm-up, then N and 2N further repetitions;
    the number of live gc-tracked objects (and of frames/tracebacks) must not grow with N."""
    N, WARM, TOL = arg['N'], 50, 8
    stats = Counter()
    violations = []
    report = {}
    seams.CLOCK.set(CLOCKS[0])
    seams.CLOCK.tick = None
    seams.RANDOM.c = 0.25
    for name, formula, extra in CENSUS_CLASSES:
        world = World([_census_slot(extra if isinstance(extra, str) and not extra.startswith('prelude') else None), _census_slot(None)])
        clock = StepClock()
        counter = [0]
        if isinstance(extra, str) and extra.startswith('prelude:'):
            _prelude(world, clock, extra[8:], stats)

        def rep(n):
            for _ in range(n):
                counter[0] += 1
                f = formula
                if name == 'distinct_formulas':
                    f = '%d+LEN("s%d")+XF%d' % (counter[0] + 1000, counter[0], counter[0] % 1048576 + 1)
                elif name.startswith('distinct_failing_formulas'):
                    f = '%d/0+u_%d_x' % (counter[0] + 1000, counter[0])
                intr = None
                if isinstance(extra, tuple):
                    intr = (extra[1], SimTimeout('t') if extra[0] == 'timeout' else SimAbort('a'))
                    clock.arm(budget=200000, interrupt=intr)
                try:
                    world.evaluate(0, f)
                except (SimAbort, SimTimeout):
                    pass
                except Exception:
                    pass
                finally:
                    if intr is not None:
                        clock.disarm()
        if name.startswith('distinct'):
            # Distinct inputs may legitimately fill a bounded cache (and a cache that is emptied when full gives a
            # sawtooth).  Ten windows of 2000 evaluations; retention = growth in EVERY one of the last four windows
            # measured.  A class that gets slower and slower (itself a symptom) is cut off after 90 s and judged on
            # the windows it completed (at least four).
            W = 2000
            t_class = time.time()
            wins = []
            prev_b, prev_o = sys.getallocatedblocks(), sum(_census().values())
            for _w in range(10):
                rep(W)
                cc = _census()
                bb = sys.getallocatedblocks()
                wins.append((bb - prev_b, sum(cc.values()) - prev_o))
                prev_b, prev_o = bb, sum(cc.values())
                stats['evals'] += W
                if time.time() - t_class > 90 and len(wins) >= 4:
                    stats['census_class_cut_off_after_90s'] += 1
                    break
            last = wins[-4:]
            report[name] = {'windows_of_2000': wins}
            stats['census_classes'] += 1
            bad = None
            if all(w[1] > TOL for w in last):
                bad = 'gc-tracked objects grow in every one of the last four windows of %d distinct evaluations: %s' % (W, [w[1] for w in last])
            elif all(w[0] > W // 4 for w in last):
                bad = 'allocated blocks grow in every one of the last four windows of %d distinct evaluations: %s' % (W, [w[0] for w in last])
            if bad:
                if len(violations) >= 2:
                    report['_stopped_early'] = 'census stopped after two violating classes'
                    break
                violations.append(({'census_class': name, 'formula': formula, 'extra': extra, 'N': N, 'ops': [], 'slots': []},
                                   [{'invariant': 'H4_retention', 'sig': 'H4:' + name, 'detail': {'class': name, 'what': bad}}]))
            continue
        rep(WARM)
        c0 = _census()
        b0 = sys.getallocatedblocks()
        rep(N)
        c1 = _census()
        b1 = sys.getallocatedblocks()
        rep(2 * N)
        c2 = _census()
        b2 = sys.getallocatedblocks()
        d1 = sum(c1.values()) - sum(c0.values())
        d2 = sum(c2.values()) - sum(c1.values())
        ft1 = (c1['frame'] + c1['traceback']) - (c0['frame'] + c0['traceback'])
        ft2 = (c2['frame'] + c2['traceback']) - (c1['frame'] + c1['traceback'])
        grow = [(t, c2[t] - c1[t]) for t in sorted(c2) if c2[t] - c1[t] > 0]
        report[name] = {'objects_delta_N': d1, 'objects_delta_2N': d2, 'frames_tracebacks_delta_2N': ft2,
                        'blocks_delta_N': b1 - b0, 'blocks_delta_2N': b2 - b1}
        stats['evals'] += WARM + 3 * N
        stats['census_classes'] += 1
        if isinstance(extra, tuple) and clock.fired is None:
            stats['census_interrupt_not_fired'] += 1
        bad = None
        if False:
            pass
        elif d2 > TOL or ft2 > TOL:
            bad = 'gc-tracked objects grow by %d per %d evaluations (frames/tracebacks %d): %s' % (d2, 2 * N, ft2, grow[:6])
        elif (b2 - b1) > arg['block_tol'] and (b1 - b0) > arg['block_tol'] // 2:
            bad = 'allocated blocks grow by %d per %d evaluations (then %d per %d)' % (b1 - b0, N, b2 - b1, 2 * N)
        if bad:
            if len(violations) >= 2:
                report['_stopped_early'] = 'census stopped after two violating classes (a leaking tree makes every further class slower)'
                break
            violations.append(({'census_class': name, 'formula': formula, 'extra': extra, 'N': N, 'ops': [], 'slots': []},
                               [{'invariant': 'H4_retention', 'sig': 'H4:' + name, 'detail': {'class': name, 'what': bad}}]))
    return {'stats': stats, 'violations': violations[:3], 'report': report}


def single_process_tasks(tier, seed, cfg):
    return [('census', 'census_task', {'N': 200 if tier == 'quick' else 1000, 'block_tol': 150})]


# ---------------------------------------------------------------- shrinking
def shrink_candidates(sc):
    if 'census_class' in sc:
        return
    if sc.get('engine') == 'fnhistory':
        for c in scen.shrink_list(sc['formulas'], 1):
            d = dict(sc)
            d['formulas'] = c
            yield d
        return
    if sc.get('engine') == 'rebind':
        for c in scen.shrink_list(sc['ops'], 1):
            d = dict(sc)
            d['ops'] = c
            yield d
        return
    if sc.get('engine') == 'leak':
        for s in scen.shrink_slot(sc['slots'][0]):
            d = dict(sc)
            d['slots'] = [s]
            yield d
        for t in scen.shrink_text(sc['formula']):
            d = dict(sc)
            d['formula'] = t
            yield d
        return
    if sc.get('engine') == 'intsweep':
        ks = sc.get('ks', [])
        if len(ks) > 1:
            d = dict(sc)
            d['ks'] = ks[-1:]
            yield d
            for c in scen.shrink_list(ks[:-1], 0):
                d = dict(sc)
                d['ks'] = c + ks[-1:]
                yield d
        for c in scen.shrink_list(sc['probes'], 1):
            d = dict(sc)
            d['probes'] = c
            yield d
        for s in scen.shrink_slot(sc['slots'][0]):
            d = dict(sc)
            d['slots'] = [s]
            yield d
        return
    ops = sc['ops']
    for c in scen.shrink_list(ops, 1):
        d = dict(sc)
        d['ops'] = c
        yield d
    for si, slot in enumerate(sc['slots']):
        for s in scen.shrink_slot(slot):
            d = dict(sc)
            d['slots'] = sc['slots'][:si] + [s] + sc['slots'][si + 1:]
            yield d
    if sc.get('tick_us') is not None:
        d = dict(sc)
        d['tick_us'] = None
        yield d
    if len(ops) <= 6:
        for k, op in enumerate(ops):
            if op[0] in ('eval', 'eval_int', 'eval_abort'):
                for t in scen.shrink_text(op[2]):
                    d = dict(sc)
                    o2 = list(op)
                    o2[2] = t
                    d['ops'] = ops[:k] + [o2] + ops[k + 1:]
                    yield d
            if op[0] == 'eval_int' and op[3] > 1:
                for kk in (1, op[3] // 2, op[3] - 1):
                    d = dict(sc)
                    o2 = list(op)
                    o2[3] = kk
                    d['ops'] = ops[:k] + [o2] + ops[k + 1:]
                    yield d


def execute_census_replay(sc):
    r = census_task({'N': sc.get('N', 200), 'block_tol': 150})
    out = []
    for s, vs in r['violations']:
        if s['census_class'] == sc['census_class']:
            out.extend(vs)
    return out


def _execute_history(sc, stats):
    if sc.get('warnings_as_errors'):
        import warnings
        with warnings.catch_warnings():
            warnings.simplefilter('error')
            stats['fault:host_runs_with_warnings_as_errors'] += 1
            return _execute_history_inner(sc, stats)
    return _execute_history_inner(sc, stats)


_execute_history_inner = execute


def execute(sc, stats):  # noqa: F811  (dispatch: census replays vs histories)
    if sc.get('engine') == 'intsweep':
        return execute_intsweep(sc, stats)
    if sc.get('engine') == 'leak':
        return execute_leak(sc, stats)
    if sc.get('engine') == 'rebind':
        return execute_rebind(sc, stats)
    if sc.get('engine') == 'fnhistory':
        return execute_fnhistory(sc, stats)
    if 'census_class' in sc:
        r = census_task({'N': sc.get('N', 200), 'block_tol': 150})
        return [v for s, vs in r['violations'] if s['census_class'] == sc['census_class'] for v in vs] or \
               [v for s, vs in _all_census_violations(sc) for v in vs]
    return _execute_history(sc, stats)


def _all_census_violations(sc):
    return []


def evidence_extra(total):
    days = sorted(k[12:-1] for k in total if k.startswith('probe:clock['))
    return {'simulated_clock_span': [days[0], days[-1]] if days else [],
            'simulated_clock_distinct_days': len(days),
            'simulated_time_note': 'time base inside an evaluation = executed lines (simulated_steps); between operations the '
                                   'simulated wall clock jumps (forwards, backwards, across midnight, 1900-02-28/03-01, 9999-12-31)'}


def describe():
    return {
        'rule': 'one evaluation = one judged Parser.parse call inside a seeded history (5-60 operations on 1-2 long-lived '
                'parsers: evaluations that succeed/fail/are interrupted at a chosen step/are aborted by a callback, '
                'rebinding, debug toggles, clock jumps, parsers built mid-history), compared with the same formula on a fresh '
                'parser carrying the same bindings under the same simulated clock and random constant; plus interrupt sweeps (an asynchronous '
                'interrupt at every step of a victim evaluation in turn, three probe formulas judged after each) and the '
                'live-object census over 29 hand-picked outcome classes and over generated formulas (every built-in in turn, arguments by '
                'parameter name, error values among them, wrapped in IFERROR/ISERROR); distinct = distinct (slots, operation list) by blake2b digest; '
                'non-trivial = history of >= 2 operations in which at least one judged evaluation produced a value',
        'fault_kinds': ['interrupt_timeout', 'interrupt_abort', 'interrupt_sweep_point', 'host_runs_with_warnings_as_errors', 'cb_abort', 'cb_raise', 'listener_raise',
                        'syntaxerror_from_callback', 'rebind_variable', 'rebind_function', 'unset_function', 'rebind_listener', 'listener_off',
                        'debug_toggle', 'parser_built_mid_history', 'reference_in_pristine_process', 'clock_jump_forward', 'clock_jump_back', 'clock_tick'],
        'real_vs_stub': {'hotxlfp (all of it)': 'real', 'ply lex/yacc, dateutil': 'real', 'host callbacks': 'scripted',
                         'wall clock': 'stub (SimClock; jumps between operations, optional tick per read)',
                         'random source': 'stub (per-scenario constant)', 'stderr': 'stub (sink)',
                         'asynchronous interrupts': 'simulated: exception raised by the line tracer at step k'},
        'assumptions': [
            'the outcome of an interrupted or aborted evaluation itself is not judged, only what follows it',
            'clock and random source are inputs to both sides of every comparison',
            'census tolerance: <= 8 gc-tracked objects and <= 150 allocator blocks per 400 evaluations',
        ],
    }
