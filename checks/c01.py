"""C01 - parse() is total: always returns a well-formed {result, error} record, in bounded
simulated time, whatever the formula text and whatever the host callbacks return or raise.

Simulator's part: the host is a fault source (raise / hostile return at chosen callback
sites), and "does not come back" is a step budget on a deterministic line-step clock.
"""
import random

from hxsim import canon, formgen, scen, seams, seeds
from hxsim import values as V
from hxsim.host import EXC_CATALOGUE, World
from hxsim.stepclock import SimAbort, StepBudgetExceeded, StepClock
from hxsim.wall import WallBudgetExceeded, wall_limit

PROPERTY = 'C01'
STREAMS = {
    'soup': {'quick': 6000, 'thorough': 150000, 'chunk': 400},      # G1/G2
    'tree': {'quick': 9000, 'thorough': 250000, 'chunk': 400},      # G3/G4, benign host
    'fault': {'quick': 12000, 'thorough': 350000, 'chunk': 400},    # G6: faulty/hostile host
    'g5': {'quick': 5000, 'thorough': 110000, 'chunk': 250},        # function x arity x pool
}
FORMULAS_PER_SCENARIO = 12
G5_PER_SCENARIO = 40
CODES = set(V.ERR_CODES)
WALL_S = 20.0     # backstop for a single evaluation whose legitimate cost is < 10 ms


def config(tier, seed):
    rng = seeds.rng_for(seed, 'C01/g5perm', 0)
    s = formgen.G5Sampler(rng)
    return {'g5_sizes': s.sizes, 'g5_perm': s.perm}


# ---------------------------------------------------------------- generation
def gen(stream, rng, i, cfg):
    sc = {'clock': '2024-02-29T13:14:15.161718', 'rand': rng.choice([0.0, 0.25, 0.5, 0.999999])}
    if stream == 'g5':
        sizes, perm = cfg['g5_sizes'], cfg['g5_perm']
        forms = []
        # arity blocks get a share proportional to a fixed mix; index i walks each block's permutation
        mix = [(0, 1), (1, 5), (2, 12), (3, 14), (4, 8)]
        for ar, share in mix:
            for k in range(share):
                idx = i * share + k
                n = sizes[ar]
                a, b = perm[ar]
                forms.append(formgen.g5_case(ar, (a * (idx % n) + b) % n))
        sc['slot'] = {'debug': False, 'variables': dict(formgen.G5_VARIABLES), 'functions': {},
                      'listeners': {'callCellValue': [[{'a': 'set', 'v': [V.I(5)]}]],
                                    'callRangeValue': [[{'a': 'set', 'v': [V.L(V.L(V.I(1), V.I(2)), V.L(V.I(3), V.S('x')))]}]]}}
        sc['formulas'] = forms
        sc['gens'] = ['G5'] * len(forms)
        return sc
    if stream == 'soup':
        sc['slot'] = scen.gen_slot(rng, fault=0.0, hostile=False)
        forms, gens = [], []
        for _ in range(FORMULAS_PER_SCENARIO * 3):
            if rng.random() < 0.5:
                forms.append(formgen.g1_unicode(rng))
                gens.append('G1')
            else:
                forms.append(formgen.g2_soup(rng))
                gens.append('G2')
        sc['formulas'], sc['gens'] = forms, gens
        return sc
    if stream == 'tree':
        slot = scen.gen_slot(rng, fault=0.0, hostile=rng.random() < 0.3)
    else:
        scen.LAZY[0] = True
        # swarm: which exception classes are enabled, how often callbacks fail
        k = rng.choice([1, 2, 4, 8, len(EXC_CATALOGUE)])
        excs = rng.sample(EXC_CATALOGUE, k)
        slot = scen.gen_slot(rng, fault=rng.choice([0.15, 0.4, 0.8]), hostile=rng.random() < 0.6, excs=excs)
    scen.LAZY[0] = False
    if stream == 'fault' and rng.random() < 0.35:
        # a callback that re-enters the same parser with a (possibly broken) formula, once or on every call;
        # 'maxdepth' keeps the scripted host itself from recursing
        e0 = scen.slot_env(slot)
        inner = formgen.g3_tree(rng, e0, rng.choice([0, 1, 2]))
        r_ = rng.random()
        if r_ < 0.35:
            # fails at its very first token and leaves a long unread tail full of references
            inner = rng.choice(['#REF!', '#N/A', ')', '1 ~', '"x" "y"', '}']) + rng.choice([',', '+', ';', '']) + \
                rng.choice(['A1', 'v_0', 'B2:A1', 'F0()', 'REENTER()']) + rng.choice([',', '+']) + inner
        elif r_ < 0.7:
            inner = formgen.g4_damage(rng, inner)
        # (the nested result is only handed on when it cannot be a huge number: it may end up as the argument of a
        # magnitude-sensitive function of the outer formula - one C call the line-step clock cannot see into)
        act = {'a': 'nested' if rng.random() < 0.7 else 'nested_thread', 'slot': 0, 'f': inner, 'maxdepth': 1,
               'use': rng.random() < 0.7 and not formgen.magnifies(inner)}
        if rng.random() < 0.5:
            slot['functions']['REENTER'] = [act]
        else:
            ev = rng.choice(['callCellValue', 'callRangeValue', 'callVariable', 'callFunction'])
            slot['listeners'].setdefault(ev, []).insert(0, [act])
    env = scen.slot_env(slot)
    forms, gens = [], []
    for _ in range(FORMULAS_PER_SCENARIO):
        f = formgen.g3_tree(rng, env)
        if stream == 'fault' and 'REENTER' in slot['functions'] and rng.random() < 0.3:
            # the re-entering callback fires more than once in one evaluation, with more formula to read afterwards
            forms.append('REENTER()%sREENTER()%s%s' % (rng.choice(['&', '+', ',']) if rng.random() < 0.8 else '=', rng.choice(['&', '+']), f)
                         if rng.random() < 0.7 else 'SUM(REENTER(),%s,REENTER())' % f)
            gens.append('G6')
            continue
        if stream == 'fault' and rng.random() < 0.12 and (slot['functions'] or slot['variables']):
            # a callback value as the value of the WHOLE formula (not only as an argument)
            names = sorted(slot['variables']) + [n + '()' for n in sorted(slot['functions']) if n not in ('SUM', 'IF', 'ABS', 'LEN')]
            if names:
                forms.append(rng.choice(names))
                gens.append('G6')
                continue
        if stream == 'tree' and rng.random() < 0.04:
            forms.append(formgen.g7_long(rng, env))
            gens.append('G7')
            continue
        if stream == 'tree' and rng.random() < 0.03:
            forms.append(formgen.g8_regex_stress(rng))
            gens.append('G8')
            continue
        if rng.random() < (0.3 if stream == 'tree' else 0.1):
            forms.append(formgen.g4_damage(rng, f))
            gens.append('G4')
        else:
            forms.append(f)
            gens.append('G3' if stream == 'tree' else 'G6')
    sc['slot'], sc['formulas'], sc['gens'] = slot, forms, gens
    return sc


# ---------------------------------------------------------------- execution + oracle
def check_record(ret):
    """I3..I6 on the value parse returned.  Returns (invariant, sig, detail) or None."""
    from hotxlfp.formulas.error import XLError
    if type(ret) is not dict or set(ret.keys()) != {'result', 'error'}:
        return ('I3_record_shape', 'I3', {'returned': canon.canon(ret)})
    err, res = ret['error'], ret['result']
    if err is not None and not (type(err) is str and err in CODES):
        return ('I4_error_not_canonical', 'I4:' + canon.dumps(canon.canon(err))[:60], {'error': canon.canon(err)})
    if err is not None and res is not None:
        return ('I5_error_with_result', 'I5', {'error': err, 'result': canon.canon(res)})
    if isinstance(res, XLError):
        return ('I6_result_is_error_object', 'I6', {'result': canon.canon(res)})
    return None


def execute(sc, stats):
    world = World([sc['slot']])
    seams.CLOCK.set(sc['clock'])
    seams.CLOCK.tick = None
    seams.RANDOM.c = sc['rand']
    want_reach = (sc.get('_run', 0) % 16 == 0)
    clock = StepClock(reach=want_reach)
    elems = scen.host_elements(sc['slot'])
    vio = []
    gens = sc.get('gens') or ['?'] * len(sc['formulas'])
    nontriv = []
    slot_d = canon.digest_int(sc['slot'])
    for k, f in enumerate(sc['formulas']):
        B = scen.budget(f, elems)
        s0 = clock.steps
        r0 = clock.ref_calls
        bad = None
        ret = None
        clock.arm(budget=B)
        try:
            with wall_limit(WALL_S):
                ret = world.evaluate(0, f)
        except WallBudgetExceeded as e:
            clock.disarm()
            wf = e.where or ['?', 0, '?']
            bad = ('I2_wall_backstop', 'I2w:%s' % wf[2], {'wall_limit_s': WALL_S, 'frame': wf,
                                                            'note': 'no line events for %.0f s: one C-level call does not come back' % WALL_S})
        except StepBudgetExceeded:
            clock.disarm()
            lf = clock.last_frame or ('?', 0, '?')
            bad = ('I2_step_budget', 'I2:%s' % lf[2], {'budget': B, 'frame': [clock.rel(lf[0]), lf[1], lf[2]]})
        except BaseException as e:  # I1: nothing may leave parse (Exception subclasses; see DESIGN 9.1)
            clock.disarm()
            if isinstance(e, (KeyboardInterrupt, SystemExit)):
                raise
            bad = ('I1_exception_escaped', 'I1:%s' % type(e).__name__, {'exception': type(e).__name__})
        finally:
            clock.disarm()
        used = clock.steps - s0
        stats['evals'] += 1
        stats['gen:' + gens[k]] += 1
        if bad is None:
            bad = check_record(ret)
            if type(ret) is dict and ret.get('error') is not None:
                stats['probe:error_outcome[%s]' % ret.get('error')] += 1
            else:
                stats['probe:value_outcome'] += 1
        if used * 10 > B:
            stats['probe:used_over_10pct_of_budget'] += 1
        if used > stats.get('max_steps_one_eval', 0):
            stats['max_steps_one_eval'] = used
        if clock.ref_calls > r0:
            nontriv.append(canon.digest_int([f, slot_d]))
        if bad is not None:
            vio.append({'invariant': bad[0], 'sig': bad[1],
                        'detail': dict(bad[2], formula_index=k, formula=f.encode('unicode_escape').decode('ascii')[:300], steps=used)})
            if bad[0].startswith('I2'):
                if bad[0] == 'I2_wall_backstop':
                    stats['wall_timeouts'] += 1
                break   # the parser object may be left mid-parse; stop this scenario here
    stats['steps'] += clock.steps
    for kname, n in world.fired.items():
        stats['fault:' + kname] += n
    sc['_nontriv'] = nontriv
    if want_reach:
        sc['_reach'] = clock.reach_list()
    return vio


def nontrivial(sc, stats):
    # handled per evaluation: the runner adds one digest per scenario, so fold the list
    nt = sc.pop('_nontriv', [])
    if not nt:
        return None
    return tuple(nt)


# ---------------------------------------------------------------- shrinking
def quick_reduce(sc, v):
    """For wall-clock verdicts (20 s per failing candidate) skip the generic shrinker: keep the one formula."""
    k = v.get('detail', {}).get('formula_index')
    d = dict(sc)
    if k is not None and k < len(sc['formulas']):
        d['formulas'] = [sc['formulas'][k]]
        d.pop('gens', None)
    return d


def shrink_candidates(sc):
    forms = sc['formulas']
    if len(forms) > 1:
        for c in scen.shrink_list(forms, 1):
            d = dict(sc)
            d['formulas'] = c
            d.pop('gens', None)
            yield d
    for s in scen.shrink_slot(sc['slot']):
        d = dict(sc)
        d['slot'] = s
        yield d
    if len(forms) <= 2:
        for k, f in enumerate(forms):
            for t in scen.shrink_text(f):
                d = dict(sc)
                d['formulas'] = forms[:k] + [t] + forms[k + 1:]
                d.pop('gens', None)
                yield d


def describe():
    return {
        'rule': 'one evaluation = one Parser.parse call under the step clock on a scripted host; generators G1 unicode, '
                'G2 token soup, G3 well-formed trees, G4 damaged trees, G7 long/deep inputs (chains of 1500 terms, 400-deep parentheses, 4500-char strings), G8 regex stress (a token-sized unit repeated 20-60 times inside/after an opening quote, with a valid prefix), G5 function x arity(0-4) x 36-entry pool walked by a '
                'seeded affine permutation (no repeats), G6 trees over a host whose callbacks raise/return hostile values; '
                'distinct = distinct (formula text, host spec) by blake2b digest; non-trivial = the evaluation reached at least '
                'one reference or function-call site (a call_* entry point of hotxlfp/parser.py was executed)',
        'fault_kinds': ['cb_raise', 'listener_raise', 'cb_return', 'setter_none', 'setter_falsy', 'setter_twice',
                        'setter_skipped', 'syntaxerror_from_callback'],
        'real_vs_stub': {'hotxlfp (all of it)': 'real', 'ply lex/yacc, dateutil': 'real', 'host callbacks': 'scripted',
                         'clock/random/stderr': 'stub (SimClock, SimRandom, sink)', 'time': 'line-step clock via sys.settrace'},
        'assumptions': [
            'callbacks raise Exception subclasses only (BaseException-only classes pass through parse by Python convention)',
            'host values are ordinary objects (no lying dunder methods, no cyclic containers)',
            'numeric magnitudes stay small (<= 4 digits): C-level unbounded work on huge magnitudes is invisible to a line-step clock',
            'bounded time = step budget 50000 + 3000*len(text) + 500*host scalar elements',
        ],
    }
