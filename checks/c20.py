"""C20 - event emitter: ordered delivery, exact unsubscription, once means once.

Seeded histories of on/once/off/emit over several names and callbacks whose scripts
subscribe, unsubscribe or emit during delivery, run against the real Emitter (bare, and a
Parser used as an emitter, including emits performed by a real parse) and against a small
executable reference model; the invocation logs must agree invocation by invocation.
"""
import json

from hxsim import canon

PROPERTY = 'C20'
STREAMS = {
    'emitter': {'quick': 120000, 'thorough': 3000000, 'chunk': 4000},
    'parser': {'quick': 30000, 'thorough': 600000, 'chunk': 2000},
}

CTXS = [None, {'k': 1}, {'k': 2, 'z': 's'}, {}]

# emits performed by a real parse(): the formula text per event kind, and the arguments the listeners are shown
PARSE_TEXT = {'callVariable': lambda t: 'tok_%d_v' % t, 'callCellValue': lambda t: 'A%d' % (t + 1),
              'callRangeValue': lambda t: 'A%d:B%d' % (t + 1, t + 2), 'callFunction': lambda t: 'SUM(%d)' % t}
PARSE_ARGS = {'callVariable': lambda t: ['tok_%d_v' % t, '<setter>'], 'callCellValue': lambda t: ['<cell A%d>' % (t + 1), '<setter>'],
              'callRangeValue': lambda t: ['<cell A%d>' % (t + 1), '<cell B%d>' % (t + 2), '<setter>'],
              'callFunction': lambda t: ['SUM', [t], '<setter>']}


def config(tier, seed):
    return {}


# ---------------------------------------------------------------- generation
def _gen_op(rng, names, ncb, inner, allow_parse):
    r = rng.random()
    name = rng.choice(names)
    if r < 0.26:
        return ['on', name, rng.randrange(ncb), rng.randrange(len(CTXS))]
    if r < 0.44:
        return ['once', name, rng.randrange(ncb), rng.randrange(len(CTXS))]
    if r < 0.52:
        return ['off', name]
    if r < 0.68:
        return ['off', name, rng.randrange(ncb)]
    if allow_parse and r < 0.74:
        return ['parse', rng.choice(['callVariable', 'callCellValue', 'callRangeValue', 'callFunction'])]
    nargs = rng.choice([0, 1, 1, 2, 3])
    return ['emit', name, [rng.choice([0, 1, 'x', None, True, 2.5, [1, 2]]) for _ in range(nargs)]]


def gen(stream, rng, i, cfg):
    target = 'parser' if stream == 'parser' else 'emitter'
    names = ['a', 'b', 'c'][:rng.choice([1, 2, 2, 3])]
    if target == 'parser' and rng.random() < 0.7:
        names = names[:1] + rng.sample(['callVariable', 'callCellValue', 'callRangeValue', 'callFunction'], rng.choice([1, 2]))
    ncb = rng.randrange(2, 6)
    nobj = rng.choice([1, 1, 2])
    callbacks = []
    reent_budget = rng.choice([0, 2, 4, 8])
    for c in range(ncb):
        kind = rng.choice(['func', 'func', 'method'])
        script = []
        if reent_budget and rng.random() < 0.6:
            for _ in range(rng.randrange(1, 4)):
                if reent_budget <= 0:
                    break
                reent_budget -= 1
                script.append(_gen_op(rng, names, ncb, True, False))
        callbacks.append({'kind': kind, 'obj': rng.randrange(nobj), 'script': script})
    nops = rng.choice([1, 2, 3, 5, 8, 12, 20, 40]) if rng.random() < 0.5 else rng.randrange(1, 41)
    ops = [_gen_op(rng, names, ncb, False, target == 'parser' and any(n.startswith('call') for n in names)) for _ in range(nops)]
    return {'target': target, 'names': names, 'callbacks': callbacks, 'ops': ops}


# ---------------------------------------------------------------- reference model
class Ambiguous(Exception):
    pass


def _same_cb(callbacks, a, b):
    """Two callback ids denote 'the same callback' iff they are the same function object, or
    bound methods of the same object and the same function (== on bound methods)."""
    return a == b


class Model(object):
    def __init__(self, sc):
        self.sc = sc
        self.l = {}           # name -> list of entries
        self.log = []
        self.inv = [0] * len(sc['callbacks'])
        self.next_eid = 0
        self.next_tok = 0
        self.active = []      # stack of (name, pending entries) for in-progress deliveries

    def do(self, op):
        k = op[0]
        if k in ('on', 'once'):
            e = {'eid': self.next_eid, 'cb': op[2], 'ctx': op[3], 'once': k == 'once'}
            self.next_eid += 1
            self.l.setdefault(op[1], []).append(e)
        elif k == 'off':
            if len(op) == 2:
                self.l[op[1]] = []
            else:
                self.l[op[1]] = [e for e in self.l.get(op[1], []) if not _same_cb(self.sc['callbacks'], e['cb'], op[2])]
        elif k == 'emit':
            self.emit(op[1], list(op[2]))
        elif k == 'parse':
            tok = self.next_tok
            ev = op[1] if len(op) > 1 else 'callVariable'
            self.emit(ev, PARSE_ARGS[ev](tok))

    def emit(self, name, args):
        tok = self.next_tok
        self.next_tok += 1
        live = self.l.get(name, [])
        # the don't-care corner: same-name re-emit while a once-entry is pending in an outer delivery
        for (oname, pending) in self.active:
            if oname == name:
                for e in pending:
                    if e['once'] and any(x is e for x in live):
                        raise Ambiguous()
        snapshot = list(live)
        pending = list(snapshot)
        self.active.append((name, pending))
        try:
            for e in snapshot:
                pending.pop(0)
                if e['once']:
                    cur = self.l.get(name, [])
                    self.l[name] = [x for x in cur if x is not e]
                ctx = CTXS[e['ctx']]
                self.log.append([e['cb'], tok, canon.canon(args), canon.canon(ctx if ctx is not None else {})])
                self.invoke(e['cb'])
        finally:
            self.active.pop()

    def invoke(self, cb):
        n = self.inv[cb]
        self.inv[cb] = n + 1
        script = self.sc['callbacks'][cb]['script']
        if n < len(script):
            self.do(script[n])


# ---------------------------------------------------------------- the real thing
class _Obj(object):
    pass


class Real(object):
    def __init__(self, sc):
        from hotxlfp import Parser
        from hotxlfp.tinyemitter import Emitter
        self.sc = sc
        self.em = Parser() if sc['target'] == 'parser' else Emitter()
        self.log = []
        self.inv = [0] * len(sc['callbacks'])
        self.next_tok = 0
        self.cur_tok = []
        self.objs = {}
        self.funcs = {}
        for i, c in enumerate(sc['callbacks']):
            if c['kind'] == 'func':
                self.funcs[i] = self._make_func(i)
            else:
                o = self.objs.get(c['obj'])
                if o is None:
                    o = self.objs[c['obj']] = self._make_obj()
                # one method per callback id on the shared object
                setattr(type(o), 'm%d' % i, self._make_method(i))

    def _make_obj(self):
        return type('HostObj', (_Obj,), {})()

    def _invoke(self, i, args, ctx):
        shown = ['<setter>' if callable(a) else ('<cell %s>' % a.label if hasattr(a, 'label') and hasattr(a, 'row') else a) for a in args]
        self.log.append([i, self.cur_tok[-1] if self.cur_tok else -1, canon.canon(shown), canon.canon(ctx)])
        n = self.inv[i]
        self.inv[i] = n + 1
        script = self.sc['callbacks'][i]['script']
        if n < len(script):
            self.do(script[n])

    def _make_func(self, i):
        real = self

        def cb(*args, **ctx):
            real._invoke(i, list(args), ctx)
        return cb

    def _make_method(self, i):
        real = self

        def m(self_, *args, **ctx):
            real._invoke(i, list(args), ctx)
        return m

    def cb(self, i):
        """A callable for callback id i; bound methods are re-created on every access, so two
        accesses are equal but not identical."""
        c = self.sc['callbacks'][i]
        if c['kind'] == 'func':
            return self.funcs[i]
        return getattr(self.objs[c['obj']], 'm%d' % i)

    def do(self, op):
        k = op[0]
        if k == 'on':
            self.em.on(op[1], self.cb(op[2]), CTXS[op[3]])
        elif k == 'once':
            self.em.once(op[1], self.cb(op[2]), CTXS[op[3]])
        elif k == 'off':
            if len(op) == 2:
                self.em.off(op[1])
            else:
                self.em.off(op[1], self.cb(op[2]))
        elif k == 'emit':
            self.cur_tok.append(self.next_tok)
            self.next_tok += 1
            try:
                self.em.emit(op[1], *op[2])
            finally:
                self.cur_tok.pop()
        elif k == 'parse':
            tok = self.next_tok
            ev = op[1] if len(op) > 1 else 'callVariable'
            self.cur_tok.append(tok)
            self.next_tok += 1
            try:
                self.em.parse(PARSE_TEXT[ev](tok))
            finally:
                self.cur_tok.pop()


# ---------------------------------------------------------------- oracle
def execute(sc, stats):
    model = Model(sc)
    final = [['emit', n, ['final']] for n in sc['names']]
    try:
        for op in sc['ops']:
            model.do(op)
        mlog_main = len(model.log)
        for op in final:
            model.do(op)
    except Ambiguous:
        stats['discarded_ambiguous_once_reemit'] += 1
        return []
    except RecursionError:
        stats['discarded_recursion'] += 1
        return []
    real = Real(sc)
    vio = []
    try:
        for op in sc['ops'] + final:
            real.do(op)
    except Exception as e:
        vio.append({'invariant': 'L0_emitter_raised', 'sig': 'L0:' + type(e).__name__,
                    'detail': {'exception': type(e).__name__, 'msg': str(e)[:200], 'log_len': len(real.log)}})
    stats['evals'] += 1
    stats['ops'] += len(sc['ops'])
    stats['invocations'] += len(real.log)
    for op in sc['ops']:
        stats['fault:op_' + op[0] + ('_cb' if op[0] == 'off' and len(op) == 3 else '')] += 1
    for c in sc['callbacks']:
        for n, op in enumerate(c['script']):
            pass
    for i, c in enumerate(sc['callbacks']):
        for n, op in enumerate(c['script']):
            if real.inv[i] > n:
                stats['fault:reentrant_' + op[0]] += 1
    if any(c['kind'] == 'method' for c in sc['callbacks']):
        stats['probe:bound_method_callbacks'] += 1
    if not vio and real.log != model.log:
        # first difference
        k = 0
        while k < len(real.log) and k < len(model.log) and real.log[k] == model.log[k]:
            k += 1
        where = 'history' if k < mlog_main else 'final_probe'
        vio.append({'invariant': 'L1_invocation_log', 'sig': 'L1:' + where,
                    'detail': {'first_difference_at': k, 'where': where,
                               'real': real.log[k] if k < len(real.log) else None,
                               'model': model.log[k] if k < len(model.log) else None,
                               'real_len': len(real.log), 'model_len': len(model.log)}})
    sc['_loglen'] = len(model.log)
    return vio


def nontrivial(sc, stats):
    # non-trivial = at least one listener invocation happened before the final probe
    if sc.get('_loglen', 0) == 0 or stats.get('evals', 0) == 0:
        return None
    return canon.digest_int([sc['target'], sc['names'], sc['callbacks'], sc['ops']])


# ---------------------------------------------------------------- shrinking
def shrink_candidates(sc):
    ops = sc['ops']
    n = len(ops)
    size = n // 2
    while size >= 1:
        for lo in range(0, n, size):
            c = dict(sc)
            c['ops'] = ops[:lo] + ops[lo + size:]
            yield c
        size //= 2
    for i, cb in enumerate(sc['callbacks']):
        for k in range(len(cb['script'])):
            c = json.loads(json.dumps(sc))
            del c['callbacks'][i]['script'][k]
            yield c
        if cb['kind'] == 'method':
            c = json.loads(json.dumps(sc))
            c['callbacks'][i]['kind'] = 'func'
            yield c
    for k, op in enumerate(ops):
        if op[0] in ('on', 'once') and op[3] != 0:
            c = json.loads(json.dumps(sc))
            c['ops'][k][3] = 0
            yield c
        if op[0] == 'emit' and op[2]:
            c = json.loads(json.dumps(sc))
            c['ops'][k][2] = []
            yield c
        if op[0] == 'once':
            c = json.loads(json.dumps(sc))
            c['ops'][k][0] = 'on'
            yield c
    if sc['target'] == 'parser' and not any(op[0] == 'parse' for op in ops):
        c = dict(sc)
        c['target'] = 'emitter'
        yield c


def describe():
    return {
        'rule': 'one evaluation = one seeded history of 1-40 on/once/off/emit (and parse-driven emit) operations '
                'over 1-3 names and 2-5 callbacks (functions and equal-but-not-identical bound methods, 4 contexts) '
                'whose scripts re-enter the emitter, run on the real Emitter/Parser and on the reference model, '
                'followed by a probe emit on every name; distinct = distinct (target,names,callbacks,ops) by '
                'blake2b digest; non-trivial = at least one listener invocation occurred',
        'fault_kinds': ['op_on', 'op_once', 'op_off', 'op_off_cb', 'op_emit', 'op_parse', 'reentrant_on',
                        'reentrant_once', 'reentrant_off', 'reentrant_emit'],
        'real_vs_stub': {'hotxlfp.tinyemitter.Emitter': 'real', 'hotxlfp.Parser (as emitter, and its call_variable emit path)': 'real',
                         'listeners': 'scripted by the simulator', 'threads/clock/io': 'none involved'},
        'assumptions': [
            'listeners do not raise (the statement does not say what delivery does then)',
            'histories in which a listener re-emits the same name while a once-listener of that name is still pending '
            'in the outer delivery are discarded and counted (the two clauses of the statement contradict each other there)',
            'callback identity is == (bound methods of the same object and function are the same callback)',
        ],
    }
