"""C03 - parser instances are isolated; evaluation is re-entrant and thread-independent.

Engine T: real caller threads, each evaluating on its own pre-built parser(s), pre-empted at line
(or bytecode) boundaries by the seeded baton scheduler.  Engine N: complete evaluations interposed
at callback sites of an outer evaluation (other parser / same parser / parser built on the spot),
to depth 2.  One oracle: every evaluation yields exactly its solo outcome (and every parser's
callbacks see exactly the invocations they see when run alone).
"""
import random

from hxsim import canon, formgen, globalstate, scen, seams
from hxsim import values as V
from hxsim.host import EVENTS, World, nested_value
from hxsim.sched import Baton, HarnessStuck
from hxsim.stepclock import SimAbort, StepBudgetExceeded, StepClock

PROPERTY = 'C03'
STREAMS = {
    'threads': {'quick': 7500, 'thorough': 300000, 'chunk': 100},
    'nest': {'quick': 7500, 'thorough': 250000, 'chunk': 150},
    # every step k of evaluation A: A runs k steps, B runs one complete evaluation, A resumes
    'sweep': {'quick': 420, 'thorough': 25000, 'chunk': 10, 'selftest_max': 12},
    # histories of registrations (set_variable / set_function / on / once / off) interleaved over 2-3 parsers
    'isolation': {'quick': 3000, 'thorough': 200000, 'chunk': 150},
}
CLOCK0 = '2024-02-29T13:14:15.161718'


def config(tier, seed):
    return {}


# ---------------------------------------------------------------- generation: threads
def gen_sweep(rng, i):
    slots = [scen.gen_slot(rng, fault=0.0, hostile=False, excs=scen.BENIGN_EXC) for _ in range(2)]
    forms = []
    names = formgen.fn_names()
    same = names[i % len(names)] if rng.random() < 0.75 else None    # walks all built-ins as i grows
    for t in range(2):
        env = scen.slot_env(slots[t])
        if same is not None:
            f = formgen.tame(formgen.builtin_call(rng, env, 1, same, force_typed=rng.random() < 0.85))
        else:
            f = formgen.g3_tree(rng, env, rng.choice([1, 2]))
        forms.append(f)
    return {'engine': 'sweep', 'slots': slots, 'threads': [{'slots': [0], 'tasks': [[0, forms[0]]]},
                                                            {'slots': [1], 'tasks': [[1, forms[1]]]}],
            'clock': CLOCK0, 'rand': 0.25, 'samefn': same, 'swap': rng.random() < 0.5,
            'points': rng.choice(['all', 'function_body', 'function_body', 'function_body', 'function_body', 'function_body',
                                  'function_body', 'function_body', 'function_body', 'cold', 'overlap2', 'overlap2'])}


ISO_VARS = ['va', 'vb', 'Rate']
ISO_FNS = ['FA', 'FB', 'SUM']
ISO_FORMS = ['va', 'vb+1', 'Rate&"x"', 'FA()', 'FB(1)', 'SUM(1,2)', 'A1', 'B2:A1', 'A1+va', 'PI()', 'FA()+A1', 'IF(va,FB(2),A1)',
             'TRUE', 'LEN("ab")', '{1,2}', 'va&vb&Rate', 'SUM(A1:B2)', 'FA()&FB()', 'zz_top']


def gen_isolation(rng, i):
    """Operations on several parsers drawn from ONE small namespace, so that every name one parser registers is a
    name the others use unbound.  Parsers start empty (70 %) or with a generated host."""
    n = rng.choice([2, 2, 3])
    slots = []
    for _ in range(n):
        if rng.random() < 0.7:
            slots.append({'debug': False, 'variables': {}, 'functions': {}, 'listeners': {}})
        else:
            slots.append(scen.gen_slot(rng, fault=0.0, hostile=False))
    ops = []
    tokn = [0]

    def val():
        tokn[0] += 1
        return rng.choice([V.I(1000 + tokn[0]), V.S('t%d' % tokn[0]), V.I(0), V.FALSE, V.L(V.I(tokn[0]))])
    for _ in range(rng.choice([4, 8, 12, 20, 30])):
        p = rng.randrange(n)
        r = rng.random()
        if r < 0.12:
            ops.append(['var', p, rng.choice(ISO_VARS), val()])
        elif r < 0.19:
            ops.append(['fn', p, rng.choice(ISO_FNS), [{'a': 'ret', 'v': val()}]])
        elif r < 0.22:
            ops.append(['unfn', p, rng.choice(ISO_FNS)])
        elif r < 0.34:
            ops.append(['on', p, rng.choice(EVENTS), [{'a': 'set', 'v': [val()]}]])
        elif r < 0.40:
            ops.append(['once', p, rng.choice(EVENTS), [{'a': 'set', 'v': [val()]}]])
        elif r < 0.50:
            ops.append(['off', p, rng.choice(EVENTS)])
        elif r < 0.56:
            ops.append(['offcb', p, rng.choice(EVENTS), rng.randrange(3)])
        else:
            ops.append(['eval', p, rng.choice(ISO_FORMS) if rng.random() < 0.8 else formgen.g3_tree(rng, formgen.Env(variables=ISO_VARS, functions={'FA': 0, 'FB': 1}), 1)])
    for p in range(n):
        for f in rng.sample(ISO_FORMS, 4):
            ops.append(['eval', p, f])
    return {'engine': 'isolation', 'slots': slots, 'ops': ops, 'clock': CLOCK0, 'rand': 0.25}


def iso_run(slots, ops, only=None):
    """Apply the operations (all of them, or only parser `only`'s) and return the canonical outcome of every
    evaluation, keyed by operation index.  Also used in the clean room."""
    seams.CLOCK.set(CLOCK0)
    seams.CLOCK.tick = None
    seams.RANDOM.c = 0.25
    world = World([s if (only is None or k == only) else None for k, s in enumerate(slots)])
    clock = StepClock()
    counters = {}
    out = {}
    for k, op in enumerate(ops):
        p = op[1]
        if only is not None and p != only:
            continue
        slot = world.slots[p]
        kind = op[0]
        if kind == 'var':
            slot.bind_variable(op[2], op[3])
        elif kind == 'fn':
            slot.bind_function(op[2], op[3])
        elif kind == 'unfn':
            slot.parser.set_function(op[2], None)
        elif kind in ('on', 'once'):
            key = (p, op[2])
            idx = 100 + counters.get(key, 0)
            counters[key] = counters.get(key, 0) + 1
            slot.bind_listener(op[2], idx, op[3], once=(kind == 'once'))
        elif kind == 'off':
            slot.parser.off(op[2])
        elif kind == 'offcb':
            fn = slot.listener_fns.get('%s#%d' % (op[2], 100 + op[3]))
            if fn is not None:
                slot.parser.off(op[2], fn)
        elif kind == 'eval':
            out[k] = _eval(world, clock, p, op[2], 200)
    return out


def execute_isolation(sc, stats):
    from hxsim import cleanroom
    ops = sc['ops']
    n = len(sc['slots'])
    # each parser alone, in a process that has never seen the other parsers
    want = {}
    for p in range(n):
        want.update(cleanroom.call('checks.c03', 'iso_run', sc['slots'], ops, p))
    got = iso_run(sc['slots'], ops)
    stats['evals'] += len(got)
    for op in ops:
        stats['fault:isolation_op_%s' % op[0]] += 1
    sc['_nt'] = len(ops) > 0
    for k in sorted(got):
        if got[k] != want.get(k):
            op = ops[k]
            return [{'invariant': 'P1_registrations_leak_between_parsers', 'sig': 'P1',
                     'detail': {'op': k, 'parser': op[1], 'formula': _esc(op[2]), 'among_other_parsers': got[k],
                                'alone': want.get(k), 'ops_before': [o[:3] for o in ops[:k]][-12:]}}]
    return []


def gen(stream, rng, i, cfg):
    if stream == 'nest':
        return gen_nest(rng, i)
    if stream == 'isolation':
        return gen_isolation(rng, i)
    if stream == 'sweep':
        return gen_sweep(rng, i)
    nthreads = rng.choice([2, 2, 2, 3, 4])
    fault = rng.choice([0.0, 0.0, 0.15, 0.4])
    slots, threads = [], []
    for t in range(nthreads):
        own = []
        for _ in range(rng.choice([1, 1, 2])):
            own.append(len(slots))
            slots.append(scen.gen_slot(rng, fault=fault, hostile=rng.random() < 0.2, excs=scen.BENIGN_EXC))
        threads.append({'slots': own, 'tasks': []})
    all_names = sorted(set(n for s in slots for n in s['variables']))
    all_fns = sorted(set(n for s in slots for n in s['functions']))
    # family 'samefn': every thread calls the same built-in with different arguments at the same time, so that
    # state shared *inside* one function's implementation (memo, scratch buffer) is touched by all of them
    samefn = rng.choice(formgen.fn_names()) if rng.random() < 0.4 else None
    for t, th in enumerate(threads):
        if samefn is not None:
            for _ in range(rng.choice([1, 2, 3])):
                s = rng.choice(th['slots'])
                env = scen.slot_env(slots[s])
                f = formgen.tame(formgen.builtin_call(rng, env, rng.choice([1, 2]), samefn))
                if rng.random() < 0.3:
                    f = f + rng.choice(['+1', '&"x"', '=1'])
                th['tasks'].append([s, f])
            continue
        for _ in range(rng.choice([1, 1, 2, 3, 6])):
            s = rng.choice(th['slots'])
            env = scen.slot_env(slots[s], extra_unbound=[n for n in all_names if n not in slots[s]['variables']])
            # names that only ANOTHER parser registers: this parser must not see them
            for n in all_fns:
                if n not in slots[s]['functions'] and n not in ('SUM', 'IF', 'ABS', 'LEN'):
                    env.functions[n] = 0
            r = rng.random()
            if r < 0.08:
                f = formgen.g2_soup(rng)
            elif r < 0.2:
                f = formgen.g4_damage(rng, formgen.g3_tree(rng, env))
            else:
                f = formgen.g3_tree(rng, env)
            th['tasks'].append([s, f])
        # sometimes a custom function of this thread evaluates on another parser of the same thread
        if len(th['slots']) == 2 and rng.random() < 0.5:
            a, b = th['slots']
            slots[a]['functions']['NEST0'] = [{'a': 'nested', 'slot': b, 'f': formgen.g3_tree(rng, scen.slot_env(slots[b]), 2)}]
            th['tasks'].append([a, 'NEST0()' + rng.choice(['', '+1', '&"x"'])])
    cross = False
    if nthreads >= 2 and rng.random() < 0.10:
        # cross-nesting: a callback of thread t evaluates on a parser that thread u is using at the same time (and,
        # half of the time, vice versa - the order in which two evaluations each wait for the other's parser)
        cross = True
        pairs = [(0, 1), (1, 0)] if rng.random() < 0.5 else [(0, 1)]
        for (t, u) in pairs:
            a, b = threads[t]['slots'][0], threads[u]['slots'][0]
            envb = scen.slot_env(slots[b])
            envb.functions = dict((k_, v_) for k_, v_ in envb.functions.items() if 'NEST' not in k_)
            slots[a]['functions']['XNEST'] = [{'a': 'nested', 'slot': b, 'f': formgen.g3_tree(rng, envb, 1)}]
            threads[t]['tasks'].append([a, rng.choice(['XNEST()+1', 'SUM(1,XNEST())', 'XNEST()&"x"'])])
            threads[t].setdefault('also_needs', []).append(b)
    sc = {'engine': 'threads', 'slots': slots, 'threads': threads, 'clock': CLOCK0, 'rand': rng.choice([0.0, 0.25, 0.75]),
          'samefn': samefn, 'cross': cross,
          'opcode': False}   # bytecode granularity dropped: see DESIGN 2.3 (not deterministic on 3.12)
    rng.random()     # (keeps the stream of draws stable after the opcode option was removed)
    kind = rng.choice(['random', 'random', 'single', 'pingpong'])
    if kind == 'random':
        sc['sched'] = {'kind': 'random', 'seed': rng.getrandbits(48), 'mean': rng.choice([3, 30, 300, 3000])}
    elif kind == 'single':
        # A runs k steps, B runs to completion, A resumes
        a = rng.randrange(nthreads)
        b = rng.choice([t for t in range(nthreads) if t != a])
        k = rng.choice([1, 2, 5, 10]) if rng.random() < 0.15 else rng.randrange(1, 4000)
        sc['schedule'] = [[a, k], [b, 1 << 40]]
        sc['family'] = 'single'
    else:
        n = rng.choice([1, 2, 7, 50, 400])
        order = list(range(nthreads))
        rng.shuffle(order)
        sc['schedule'] = [[order[j % nthreads], n] for j in range(rng.choice([20, 200, 2000]))]
        sc['family'] = 'pingpong'
    return sc


# ---------------------------------------------------------------- generation: nesting
def _site_formula(rng, env, trigger):
    """An outer formula that triggers the nest site and continues afterwards."""
    e1 = formgen.g3_tree(rng, env, rng.choice([0, 1, 2]))
    e2 = formgen.g3_tree(rng, env, rng.choice([0, 1]))
    k = rng.randrange(8)
    if 'fn' in env.deny and k in (3, 4):
        k = 1
    if k == 0:
        return trigger
    if k == 1:
        return '%s%s%s' % (trigger, rng.choice(formgen.GRAMMAR_OPS), e1)
    if k == 2:
        return '%s%s%s' % (e1, rng.choice(formgen.GRAMMAR_OPS), trigger)
    if k == 3:
        return 'SUM(%s,%s,%s)' % (e1, trigger, e2)
    if k == 4:
        return '%s(%s,%s)' % (rng.choice(['IF', 'CONCATENATE', 'MAX', 'IFERROR', 'AND', 'TEXTJOIN']), trigger, e1)
    if k == 5:
        return '{%s,%s}' % (trigger, e1)
    if k == 6:
        return '%s&%s&%s' % (trigger, e1, trigger)
    return '-(%s)*%s' % (trigger, e2)


def _place_site(rng, slots, s, level, action, deny):
    """Install a nest site on slot s; returns (site descriptor, trigger text, extra deny kinds)."""
    tk = {'fn': 'fn', 'callFunction': 'fn', 'callVariable': 'var', 'callCellValue': 'cell', 'callRangeValue': 'range'}
    kinds = [k for k in ['fn', 'fn', 'callFunction', 'callVariable', 'callCellValue', 'callRangeValue'] if tk[k] not in deny]
    kind = rng.choice(kinds)
    if kind != 'fn' and kind in slots[s]['listeners'] and any(a['a'] == 'nested' for sc in slots[s]['listeners'][kind] for a in sc):
        kind = 'fn'
    if kind == 'fn':
        name = 'NEST%d' % level
        slots[s]['functions'][name] = [action]
        return {'level': level, 'slot': s, 'kind': 'fn', 'name': name}, name + '()', set()
    ls = slots[s]['listeners'].setdefault(kind, [])
    ls.append([action])
    idx = len(ls) - 1
    trig = {'callFunction': rng.choice(['PI()', 'LEN("ab")', 'SUM(1,2)']), 'callVariable': rng.choice(['TRUE', 'nv_%d' % level]),
            'callCellValue': rng.choice(['A1', '$B$2', 'c3']), 'callRangeValue': rng.choice(['A1:B2', 'B2:A1'])}[kind]
    dk = {'callFunction': 'fn', 'callVariable': 'var', 'callCellValue': 'cell', 'callRangeValue': 'range'}[kind]
    return {'level': level, 'slot': s, 'kind': kind, 'idx': idx}, trig, {dk}


def gen_nest(rng, i):
    nslots = rng.choice([2, 2, 3])
    fault = rng.choice([0.0, 0.0, 0.2])
    slots = [scen.gen_slot(rng, fault=fault, hostile=False, excs=scen.BENIGN_EXC) for _ in range(nslots)]
    depth2 = rng.random() < 0.35
    outer_slot = 0
    mode0 = rng.choice(['other', 'other', 'same', 'build'])
    inner_slot = outer_slot if mode0 == 'same' else rng.randrange(1, nslots)
    sites = []
    deny = set()
    # level 0 site on the outer slot
    act0 = {'a': 'nested', 'slot': inner_slot, 'f': None, 'tap': 'n0'} if mode0 != 'build' else \
           {'a': 'nested_build', 'f': None, 'tap': 'n0', 'debug': rng.random() < 0.3}
    site0, trig0, d0 = _place_site(rng, slots, outer_slot, 0, act0, deny)
    deny |= d0
    sites.append(site0)
    inner_env_slot = slots[inner_slot] if mode0 != 'build' else {'variables': {}, 'functions': {}, 'listeners': {}}
    trig1 = None
    if depth2 and mode0 != 'build':
        mode1 = rng.choice(['other', 'same', 'back', 'build'])
        if mode1 == 'same':
            s2 = inner_slot
        elif mode1 == 'back':
            s2 = outer_slot
        else:
            s2 = rng.randrange(nslots)
        act1 = {'a': 'nested', 'slot': s2, 'f': None, 'tap': 'n1'} if mode1 != 'build' else {'a': 'nested_build', 'f': None, 'tap': 'n1'}
        site1, trig1, d1 = _place_site(rng, slots, inner_slot, 1, act1, deny)
        deny |= d1
        sites.append(site1)
        env2 = _env(slots[s2] if mode1 != 'build' else {'variables': {}, 'functions': {}, 'listeners': {}}, deny, mode1 == 'build')
        act1['f'] = formgen.g3_tree(rng, env2, rng.choice([1, 2]))
    env1 = _env(inner_env_slot, deny if trig1 is None else deny - d1, mode0 == 'build')
    if trig1 is not None:
        act0['f'] = _site_formula(rng, env1, trig1)
    else:
        act0['f'] = formgen.g3_tree(rng, env1, rng.choice([1, 2, 3]))
    env0 = _env(slots[outer_slot], set(), False)
    outer = _site_formula(rng, env0, trig0)
    # a nested result that reaches a magnitude-sensitive function as a variable / cell value could stall one C call:
    # listener sites get inner formulas that cannot evaluate to huge numbers
    for site in sites:
        if site['kind'] != 'fn':
            act = _site_action(slots, site)
            tries = 0
            while formgen.magnifies(act['f']) and tries < 20 and 'NEST' not in act['f'] and not any(t in act['f'] for t in ('nv_',)):
                env_ = _env(slots[act['slot']] if 'slot' in act else {'variables': {}, 'functions': {}, 'listeners': {}}, deny, 'slot' not in act)
                act['f'] = formgen.g3_tree(rng, env_, 1)
                tries += 1
    return {'engine': 'nest', 'slots': slots, 'outer': [outer_slot, outer], 'sites': sites, 'clock': CLOCK0,
            'rand': rng.choice([0.0, 0.25, 0.75]), 'modes': [mode0] + ([mode1] if trig1 is not None else [])}


def _env(slot, deny, bare):
    fns = {} if bare else dict((k, 0) for k in slot['functions'] if not k.startswith('NEST') and k not in ('SUM', 'IF', 'ABS', 'LEN'))
    return formgen.Env(variables=[] if bare else sorted(slot['variables']), functions=fns, deny=deny)


# ---------------------------------------------------------------- execution helpers
def _eval(world, clock, slot, f, elems):
    clock.arm(budget=scen.budget(f, elems) * 4)
    try:
        return canon.canon_outcome(world.evaluate(slot, f))
    except StepBudgetExceeded:
        return ['budget']
    except SimAbort:
        return ['aborted']
    except BaseException as e:
        if isinstance(e, (KeyboardInterrupt, SystemExit, HarnessStuck)):
            raise
        return canon.canon_raised(e)
    finally:
        clock.disarm()


def _restore_global(key, value):
    import sys
    import warnings
    if key == 'sys.getrecursionlimit':
        sys.setrecursionlimit(value)
    elif key == 'warnings.filters':
        pass     # (entries cannot be rebuilt from their repr; the chunk's later runs compare before/after anyway)


def _set_env(sc):
    seams.CLOCK.set(sc['clock'])
    seams.CLOCK.tick = None
    seams.RANDOM.c = sc['rand']


def _slot_logs(world, n):
    out = [[] for _ in range(n)]
    for e in world.log:
        out[e[0]].append(e[1:])
    return out


def _esc(f):
    return f.encode('unicode_escape').decode('ascii')[:300]


# ---------------------------------------------------------------- engine T
def execute_threads(sc, stats):
    _set_env(sc)
    nslots = len(sc['slots'])
    elems = sum(scen.host_elements(s) for s in sc['slots'])
    threads = sc['threads']
    # phase 1: solo outcomes; each thread's parsers exist alone in their world
    solo, solo_logs = [], [None] * nslots
    refclock = StepClock()
    for t, th in enumerate(threads):
        needed = set(th['slots']) | set(th.get('also_needs', []))
        specs = [sc['slots'][k] if k in needed else None for k in range(nslots)]
        w = World(specs, logging=True)
        solo.append([_eval(w, refclock, s, f, elems) for s, f in th['tasks']])
        logs = _slot_logs(w, nslots)
        for k in th['slots']:
            solo_logs[k] = logs[k]
    # phase 2: all parsers pre-built on the main thread, evaluations under the scheduler
    world = World(sc['slots'], logging=True)
    want_reach = (sc.get('_run', 0) % 16 == 0)
    if 'schedule' in sc:
        baton = Baton(len(threads), schedule=sc['schedule'], opcode=bool(sc.get('opcode')), reach=want_reach)
    else:
        baton = Baton(len(threads), rng=random.Random(sc['sched']['seed']), mean=sc['sched']['mean'],
                      opcode=bool(sc.get('opcode')), reach=want_reach)
    got = [[None] * len(th['tasks']) for th in threads]

    def make_body(t):
        def body(clock):
            for j, (s, f) in enumerate(threads[t]['tasks']):
                got[t][j] = _eval(world, clock, s, f, elems)
        return body
    g0 = globalstate.snapshot()
    baton.run([make_body(t) for t in range(len(threads))])
    g1 = globalstate.snapshot()
    if baton.errors:
        raise HarnessStuck('simulated thread failed in the harness: %s' % baton.errors[:2])
    log = baton.compact_log()
    sc['_schedule_observed'] = log
    stats['evals'] += sum(len(th['tasks']) for th in threads)
    stats['steps'] += sum(c.steps for c in baton.clocks) + refclock.steps
    stats['fault:ctx_switch'] += baton.switches
    if baton.lock_blocks:
        stats['fault:parked_on_contended_lock'] += baton.lock_blocks
    if baton.deadlock:
        stats['probe:deadlock'] += 1
    fam = sc.get('family', 'random')
    stats['fault:schedule_' + fam] += 1 if fam != 'sweep' else 0
    if sc.get('samefn'):
        stats['probe:same_function_in_all_threads'] += 1
    if sc.get('opcode'):
        stats['fault:opcode_granularity'] += 1
    for (fn, ln), n in baton.switch_locs.items():
        base = fn.split('/')[-1]
        stats['probe:switch_in[%s]' % base] += n
    sc['_switch_locs'] = sorted(baton.switch_locs)
    sc['_sets'] = {'switch_locations': [tuple(x) for x in baton.switch_locs],
                   'schedules': [canon.digest_int(log)] if baton.switches else []}
    for kname, n in world.fired.items():
        stats['fault:' + kname] += n
    if want_reach:
        r = set()
        for c in baton.clocks:
            r.update(c.reach_list())
        sc['_reach'] = sorted(r)
    vio = []
    for t, th in enumerate(threads):
        for j, (s, f) in enumerate(th['tasks']):
            if got[t][j] != solo[t][j]:
                vio.append({'invariant': 'T1_solo_outcome', 'sig': 'T1',
                            'detail': {'thread': t, 'task': j, 'slot': s, 'formula': _esc(f), 'concurrent': got[t][j],
                                       'solo': solo[t][j], 'switches': baton.switches, 'schedule_head': log[:12]}})
                break
        if vio:
            break
    if sc.get('cross'):
        stats['fault:cross_thread_nesting'] += 1
    if not vio and not sc.get('cross'):
        logs = _slot_logs(world, nslots)
        for k in range(nslots):
            if logs[k] != solo_logs[k]:
                d = 0
                while d < len(logs[k]) and d < len(solo_logs[k]) and logs[k][d] == solo_logs[k][d]:
                    d += 1
                vio.append({'invariant': 'T2_callback_log', 'sig': 'T2',
                            'detail': {'slot': k, 'first_difference_at': d,
                                       'concurrent': logs[k][d] if d < len(logs[k]) else None,
                                       'solo': solo_logs[k][d] if d < len(solo_logs[k]) else None}})
                break
    if not vio and g0 != g1:
        vio.append({'invariant': 'S1_process_state_changed', 'sig': 'S1:' + ','.join(sorted(globalstate.diff(g0, g1))),
                    'detail': {'changed': globalstate.diff(g0, g1), 'switches': baton.switches, 'schedule_head': log[:12],
                               'note': 'after all evaluations ended, a process-global interpreter setting differs from before'}})
        for k_, v_ in g0.items():          # put it back, so that the rest of the chunk is not affected
            _restore_global(k_, v_)
    if vio and 'schedule' not in sc:
        sc['schedule'] = log   # replay/shrink from the explicit decision list
        sc['sched_origin'] = sc.pop('sched')
    sc['_nt'] = baton.switches > 0
    return vio


# ---------------------------------------------------------------- engine N
def _replace_site(specs, site, obj):
    act = {'a': 'retobj', 'obj': obj}
    if site['kind'] == 'fn':
        specs[site['slot']]['functions'][site['name']] = [act]
    else:
        specs[site['slot']]['listeners'][site['kind']][site['idx']] = [act]


def _site_action(specs, site):
    if site['kind'] == 'fn':
        return specs[site['slot']]['functions'][site['name']][0]
    return specs[site['slot']]['listeners'][site['kind']][site['idx']][0]


def execute_nest(sc, stats):
    from hotxlfp import Parser
    _set_env(sc)
    nslots = len(sc['slots'])
    elems = sum(scen.host_elements(s) for s in sc['slots']) + 200
    clock = StepClock(reach=(sc.get('_run', 0) % 16 == 0))
    sites = sorted(sc['sites'], key=lambda s: -s['level'])
    solo = {}
    solo_rec = {}
    # bottom-up: the solo outcome of each nested formula, computed with deeper sites replaced by
    # plain returns of *their* solo values - no reference ever nests
    for site in sites:
        act = _site_action(sc['slots'], site)
        specs = scen.clone(sc['slots'])
        for deeper in sites:
            if deeper['level'] > site['level']:
                _replace_site(specs, deeper, solo[deeper['level']])
        if act['a'] == 'nested_build':
            clock.arm(budget=scen.budget(act['f'], elems))
            try:
                rec = Parser(debug=bool(act.get('debug', False))).parse(act['f'])
            finally:
                clock.disarm()
            out = canon.canon_outcome(rec)
        else:
            w = World(specs)
            clock.arm(budget=scen.budget(act['f'], elems))
            try:
                rec = w.evaluate(act['slot'], act['f'])
                out = canon.canon_outcome(rec)
            except BaseException as e:
                if isinstance(e, (KeyboardInterrupt, SystemExit)):
                    raise
                rec = None
                out = canon.canon_raised(e)
            finally:
                clock.disarm()
        if rec is None:
            # the nested evaluation itself escapes parse (a C01 matter): not a usable scenario
            stats['discarded_inner_raises'] += 1
            return []
        solo[site['level']] = nested_value(rec)
        solo_rec[site['level']] = out
    # reference for the outer formula: level-0 site simply returns the inner's solo value
    specs = scen.clone(sc['slots'])
    for site in sites:
        _replace_site(specs, site, solo[site['level']])
    wref = World(specs, logging=True)
    want = _eval(wref, clock, sc['outer'][0], sc['outer'][1], elems)
    # the real thing: every nest site evaluates for real
    world = World(scen.clone(sc['slots']), logging=True)
    got = _eval(world, clock, sc['outer'][0], sc['outer'][1], elems)
    stats['evals'] += 1
    stats['steps'] += clock.steps
    if world.max_depth > 1 + len(sc['sites']):
        # the scripted host itself recursed (a nested formula triggers the site it was started from): an artefact of
        # generation or shrinking, not something the library did
        stats['discarded_host_recursion'] += 1
        sc['_nt'] = False
        return []
    for kname, n in world.fired.items():
        stats['fault:' + kname] += n
    stats['probe:max_nesting_depth[%d]' % world.max_depth] += 1
    for site in sc['sites']:
        stats['probe:nest_site[%s,level%d]' % (site['kind'], site['level'])] += 1
    if clock.reach is not None:
        sc['_reach'] = clock.reach_list()
    vio = []
    ntaps = 0
    for site in sc['sites']:
        tap = 'n%d' % site['level']
        for rec in world.taps.get(tap, []):
            ntaps += 1
            out = canon.canon_outcome(rec)
            if out != solo_rec[site['level']]:
                act = _site_action(sc['slots'], site)
                vio.append({'invariant': 'N1_inner_solo_outcome', 'sig': 'N1',
                            'detail': {'level': site['level'], 'site': site, 'inner_formula': _esc(act['f']),
                                       'nested': out, 'solo': solo_rec[site['level']], 'outer_formula': _esc(sc['outer'][1])}})
                break
        if vio:
            break
    sc['_nt'] = ntaps > 0
    if not vio and got != want:
        vio.append({'invariant': 'N2_outer_outcome', 'sig': 'N2',
                    'detail': {'outer_formula': _esc(sc['outer'][1]), 'with_nested_evaluation': got,
                               'with_plain_return_of_inner_solo_value': want, 'modes': sc.get('modes'),
                               'inner_formula': _esc(_site_action(sc['slots'], sc['sites'][0])['f'])}})
    if not vio and ntaps:
        # the outer parser's callbacks must see exactly what they see when the site merely returns
        a = [e for e in world.log if e[0] == sc['outer'][0]]
        b = [e for e in wref.log if e[0] == sc['outer'][0]]
        inner_slots = set(_site_action(sc['slots'], s).get('slot') for s in sc['sites'])
        if sc['outer'][0] not in inner_slots and a != b:
            vio.append({'invariant': 'N3_outer_callback_log', 'sig': 'N3',
                        'detail': {'outer_formula': _esc(sc['outer'][1]), 'nested_len': len(a), 'plain_len': len(b)}})
    return vio


def execute_sweep(sc, stats):
    """Single interposition at EVERY step of A's evaluation (the quantifier of the property, literally)."""
    _set_env(sc)
    elems = sum(scen.host_elements(s) for s in sc['slots'])
    a, b = (1, 0) if sc.get('swap') else (0, 1)
    tasks = [sc['threads'][0]['tasks'][0], sc['threads'][1]['tasks'][0]]
    refclock = StepClock(steplog=True)
    solo = []
    nsteps = []
    logs = []
    for t in (0, 1):
        specs = [sc['slots'][k] if k == t else None for k in (0, 1)]
        w = World(specs)
        s0 = refclock.steps
        solo.append(_eval(w, refclock, tasks[t][0], tasks[t][1], elems))
        nsteps.append(refclock.steps - s0)
        logs.append(refclock.steplog[s0:refclock.steps])
    world = World(sc['slots'])
    n = min(nsteps[a], 4000)
    stats['evals'] += 2
    stats['steps'] += refclock.steps
    vio = []
    if sc.get('points') == 'cold':
        return _sweep_cold(sc, stats, tasks, elems, a, b)
    if sc.get('points') == 'overlap2':
        return _sweep_overlap2(sc, stats, world, tasks, solo, logs, elems, a, b, nsteps)
    if 'ks' in sc:
        ks = list(sc['ks'])          # replay / shrinking: the interposition points, literally
    elif sc.get('points') == 'all':
        ks = list(range(1, n + 1))
    else:
        # every step executed in the formula / helper modules (where function-specific shared state would live:
        # lexer, LR engine and Parser steps are common to all formulas and are swept in the 'all' scenarios and by
        # the random schedules), plus every 13th other step
        off = sc.get('_run', 0) % 13
        ks = [k for k in range(1, n + 1) if ('/formulas/' in logs[a][k - 1] or '/helper/' in logs[a][k - 1]) or (k % 13 == off)]
        # a switch *before* line k means k-1 steps have run
        ks = sorted(set(ks) | set(k - 1 for k in ks if k > 1))
    for k in ks:
        baton = Baton(2, schedule=[[a, k], [b, 1 << 40]])
        got = [None, None]
        g0 = globalstate.snapshot()

        def make_body(t):
            def body(clock):
                got[t] = _eval(world, clock, tasks[t][0], tasks[t][1], elems)
            return body
        baton.run([make_body(0), make_body(1)])
        if baton.errors:
            raise HarnessStuck('simulated thread failed in the harness: %s' % baton.errors[:2])
        stats['evals'] += 2
        stats['steps'] += baton.clocks[0].steps + baton.clocks[1].steps
        stats['fault:single_interposition_point'] += 1
        g1 = globalstate.snapshot()
        if got == solo and g0 != g1:
            vio.append({'invariant': 'S1_process_state_changed', 'sig': 'S1:' + ','.join(sorted(globalstate.diff(g0, g1))),
                        'detail': {'changed': globalstate.diff(g0, g1), 'interposed_after_step': k, 'formula': _esc(tasks[a][1]),
                                   'other_formula': _esc(tasks[b][1])}})
            sc['ks'] = ks[:ks.index(k) + 1]
            break
        if got != solo:
            t = 0 if got[0] != solo[0] else 1
            vio.append({'invariant': 'T1_solo_outcome', 'sig': 'T1',
                        'detail': {'thread': t, 'formula': _esc(tasks[t][1]), 'other_formula': _esc(tasks[1 - t][1]),
                                   'concurrent': got[t], 'solo': solo[t], 'interposed_after_step': k, 'of_steps': nsteps[a],
                                   'suspended_thread': a}})
            # replay = the rounds up to and including this one (an earlier round may have left state behind)
            sc['ks'] = ks[:ks.index(k) + 1]
            break
    stats['probe:sweep_%s' % sc.get('points', 'all')] += 1
    stats['probe:sweep_points[%s]' % ('<=500' if n <= 500 else ('<=1500' if n <= 1500 else '>1500'))] += 1
    sc['_nt'] = n > 0
    sc['_schedule_observed'] = [n]
    return vio


def cold_run(slots, tasks, elems, schedule, clock_iso, rand, which=None, want_log=False):
    """Runs in a pristine process (clean room): the two evaluations under `schedule`, or (which=t) task t alone.
    First-use initialisation of anything the evaluations need happens inside this run."""
    seams.CLOCK.set(clock_iso)
    seams.CLOCK.tick = None
    seams.RANDOM.c = rand
    if which is not None:
        w = World([slots[k] if k == which else None for k in (0, 1)])
        clock = StepClock(steplog=want_log)
        out = _eval(w, clock, tasks[which][0], tasks[which][1], elems)
        return {'out': out, 'log': [('/formulas/' in f or '/helper/' in f) for f in clock.steplog] if want_log else None}
    world = World(slots)
    baton = Baton(2, schedule=schedule)
    got = [None, None]

    def make_body(t):
        def body(clock):
            got[t] = _eval(world, clock, tasks[t][0], tasks[t][1], elems)
        return body
    g0 = globalstate.snapshot()
    baton.run([make_body(0), make_body(1)])
    g1 = globalstate.snapshot()
    return {'got': got, 'errors': baton.errors[:2], 'state_diff': globalstate.diff(g0, g1)}


def _sweep_cold(sc, stats, tasks, elems, a, b):
    """Every run in its own pristine process: B's complete evaluation interposed after step k of A's FIRST-EVER
    evaluation in that process (lazy imports, tables built on first use, caches filled on first use)."""
    from hxsim import cleanroom
    slots = sc['slots']
    solo = []
    for t in (0, 1):
        r = cleanroom.call('checks.c03', 'cold_run', slots, tasks, elems, None, sc['clock'], sc['rand'], t, t == a)
        solo.append(r['out'])
        if t == a:
            body = r['log']
    n = len(body)
    if 'ks' in sc:
        ks = list(sc['ks'])
    else:
        off = sc.get('_run', 0) % 5
        ks = [k for k in range(1, n + 1) if body[k - 1] or k % 5 == off]
        if len(ks) > 150:
            step = len(ks) // 150 + 1
            ks = ks[sc.get('_run', 0) % step::step]
    vio = []
    for k in ks:
        r = cleanroom.call('checks.c03', 'cold_run', slots, tasks, elems, [[a, k], [b, 1 << 40]], sc['clock'], sc['rand'])
        if r['errors']:
            raise HarnessStuck('simulated thread failed in the harness: %s' % r['errors'])
        stats['evals'] += 2
        stats['fault:cold_start_interposition_point'] += 1
        got = r['got']
        bad = None
        if got != solo:
            t = 0 if got[0] != solo[0] else 1
            bad = {'invariant': 'T1_solo_outcome', 'sig': 'T1:cold',
                   'detail': {'thread': t, 'formula': _esc(tasks[t][1]), 'other_formula': _esc(tasks[1 - t][1]), 'concurrent': got[t],
                              'solo': solo[t], 'interposed_after_step': k, 'of_steps': n, 'suspended_thread': a,
                              'note': 'every run in its own pristine process: first use of whatever the evaluations need'}}
        elif r['state_diff']:
            bad = {'invariant': 'S1_process_state_changed', 'sig': 'S1:' + ','.join(sorted(r['state_diff'])),
                   'detail': {'changed': r['state_diff'], 'interposed_after_step': k}}
        if bad:
            vio.append(bad)
            sc['ks'] = [k]
            break
    stats['probe:sweep_cold'] += 1
    sc['_nt'] = len(ks) > 0
    sc['_schedule_observed'] = [n]
    return vio


def _body_points(log):
    ks = [k for k in range(1, len(log) + 1) if '/formulas/' in log[k - 1] or '/helper/' in log[k - 1]]
    return sorted(set(ks) | set(k - 1 for k in ks if k > 1))


def _sweep_overlap2(sc, stats, world, tasks, solo, logs, elems, a, b, nsteps):
    """Two pre-emptions: B runs kb steps, A runs ka steps, B finishes, A finishes - for every pair of steps the two
    evaluations execute in the formula / helper modules.  Critical sections that overlap WITHOUT nesting."""
    if 'pairs' in sc:
        pairs = [tuple(x) for x in sc['pairs']]
    else:
        ka_s, kb_s = _body_points(logs[a])[:40], _body_points(logs[b])[:40]
        pairs = [(kb, ka) for kb in kb_s for ka in ka_s]
        if len(pairs) > 1000:
            step = len(pairs) // 1000 + 1
            pairs = pairs[sc.get('_run', 0) % step::step]
    vio = []
    for kb, ka in pairs:
        baton = Baton(2, schedule=[[b, kb], [a, ka], [b, 1 << 40], [a, 1 << 40]])
        got = [None, None]

        def make_body(t):
            def body(clock):
                got[t] = _eval(world, clock, tasks[t][0], tasks[t][1], elems)
            return body
        g0 = globalstate.snapshot()
        baton.run([make_body(0), make_body(1)])
        g1 = globalstate.snapshot()
        if baton.errors:
            raise HarnessStuck('simulated thread failed in the harness: %s' % baton.errors[:2])
        stats['evals'] += 2
        stats['steps'] += baton.clocks[0].steps + baton.clocks[1].steps
        stats['fault:double_preemption_point'] += 1
        bad = None
        if got != solo:
            t = 0 if got[0] != solo[0] else 1
            bad = {'invariant': 'T1_solo_outcome', 'sig': 'T1',
                   'detail': {'thread': t, 'formula': _esc(tasks[t][1]), 'other_formula': _esc(tasks[1 - t][1]), 'concurrent': got[t],
                              'solo': solo[t], 'schedule': [[b, kb], [a, ka], [b, 'end'], [a, 'end']]}}
        elif g0 != g1:
            bad = {'invariant': 'S1_process_state_changed', 'sig': 'S1:' + ','.join(sorted(globalstate.diff(g0, g1))),
                   'detail': {'changed': globalstate.diff(g0, g1), 'formula': _esc(tasks[a][1]), 'other_formula': _esc(tasks[b][1]),
                              'schedule': [[b, kb], [a, ka], [b, 'end'], [a, 'end']]}}
        if bad:
            vio.append(bad)
            sc['pairs'] = [list(x) for x in pairs[:pairs.index((kb, ka)) + 1]]
            for k_, v_ in g0.items():
                _restore_global(k_, v_)
            break
    stats['probe:sweep_overlap2'] += 1
    sc['_nt'] = len(pairs) > 0
    sc['_schedule_observed'] = [len(pairs)]
    return vio


def execute(sc, stats):
    if sc.get('engine') == 'nest':
        return execute_nest(sc, stats)
    if sc.get('engine') == 'isolation':
        return execute_isolation(sc, stats)
    if sc.get('engine') == 'sweep':
        return execute_sweep(sc, stats)
    return execute_threads(sc, stats)


def nontrivial(sc, stats):
    nt = sc.pop('_nt', False)
    if not nt:
        return None
    if sc.get('engine') == 'nest':
        return canon.digest_int([sc['slots'], sc['outer']])
    if sc.get('engine') == 'isolation':
        return canon.digest_int([sc['slots'], sc['ops']])
    return canon.digest_int([sc['slots'], sc['threads'], sc.get('_schedule_observed')])


# ---------------------------------------------------------------- shrinking
def shrink_candidates(sc):
    if sc.get('engine') == 'nest':
        for c in _shrink_nest(sc):
            yield c
        return
    if sc.get('engine') == 'isolation':
        for c in scen.shrink_list(sc['ops'], 1):
            d = dict(sc)
            d['ops'] = c
            yield d
        for si, slot in enumerate(sc['slots']):
            for s in scen.shrink_slot(slot):
                d = dict(sc)
                d['slots'] = sc['slots'][:si] + [s] + sc['slots'][si + 1:]
                yield d
        return
    if sc.get('engine') == 'sweep' and sc.get('points') == 'overlap2':
        pairs = sc.get('pairs', [])
        if len(pairs) > 1:
            d = dict(sc)
            d['pairs'] = pairs[-1:]
            yield d
            for c in scen.shrink_list(pairs[:-1], 0):
                d = dict(sc)
                d['pairs'] = c + pairs[-1:]
                yield d
        return
    if sc.get('engine') == 'sweep':
        ks = sc.get('ks', [])
        if len(ks) > 1:
            d = dict(sc)
            d['ks'] = ks[-1:]
            yield d
            for c in scen.shrink_list(ks[:-1], 0):
                d = dict(sc)
                d['ks'] = c + ks[-1:]
                yield d
        for si, slot in enumerate(sc['slots']):
            for s in scen.shrink_slot(slot):
                d = dict(sc)
                d['slots'] = sc['slots'][:si] + [s] + sc['slots'][si + 1:]
                yield d
        return
    threads = sc['threads']
    # drop whole threads (keep >= 2), drop tasks
    if len(threads) > 2:
        for t in range(len(threads)):
            d = scen.clone(sc)
            del d['threads'][t]
            d['schedule'] = [[x[0] - (1 if x[0] > t else 0), x[1]] for x in sc.get('schedule', []) if x[0] != t]
            yield d
    for t, th in enumerate(threads):
        if len(th['tasks']) > 1:
            for c in scen.shrink_list(th['tasks'], 1):
                d = scen.clone(sc)
                d['threads'][t]['tasks'] = c
                yield d
    sched = sc.get('schedule', [])
    for c in scen.shrink_list(sched, 0):
        d = dict(sc)
        d['schedule'] = c
        yield d
    # merge neighbouring segments / round lengths
    for k, (t, n) in enumerate(sched):
        if n > 1 and n < (1 << 30):
            for n2 in (n // 2, n - 1):
                d = dict(sc)
                d['schedule'] = sched[:k] + [[t, n2]] + sched[k + 1:]
                yield d
    for si, slot in enumerate(sc['slots']):
        for s in scen.shrink_slot(slot):
            d = dict(sc)
            d['slots'] = sc['slots'][:si] + [s] + sc['slots'][si + 1:]
            yield d
    if sum(len(th['tasks']) for th in threads) <= 3:
        for t, th in enumerate(threads):
            for j, (s, f) in enumerate(th['tasks']):
                for txt in scen.shrink_text(f):
                    d = scen.clone(sc)
                    d['threads'][t]['tasks'][j][1] = txt
                    yield d
    if sc.get('opcode'):
        d = dict(sc)
        d['opcode'] = False
        yield d


def _shrink_nest(sc):
    for si, slot in enumerate(sc['slots']):
        for s in scen.shrink_slot(slot):
            d = scen.clone(sc)
            d['slots'][si] = s
            ok = True
            for site in d['sites']:
                try:
                    if _site_action(d['slots'], site)['a'] not in ('nested', 'nested_build'):
                        ok = False
                except (KeyError, IndexError):
                    ok = False
            if ok:
                yield d
    for txt in scen.shrink_text(sc['outer'][1]):
        d = scen.clone(sc)
        d['outer'][1] = txt
        yield d
    for k, site in enumerate(sc['sites']):
        f = _site_action(sc['slots'], site)['f']
        for txt in scen.shrink_text(f):
            d = scen.clone(sc)
            _site_action(d['slots'], d['sites'][k])['f'] = txt
            yield d


def describe():
    return {
        'rule': 'threads: one run = 2-4 real caller threads, each with 1-6 formulas on its own pre-built parser(s), executed '
                'under a seeded baton scheduler that pre-empts at line boundaries (families: random with mean '
                '3/30/300/3000 steps, single interposition at step k, ping-pong every n steps), compared with each thread run '
                'alone in a world that holds only its own parsers; sweep: two formulas (75%: the same built-in, argument shapes chosen by '
                'parameter name, the built-in walking the whole registry with the run index) where B\'s complete evaluation is '
                'interposed after EVERY step k of A\'s; isolation: histories of set_variable/set_function/on/once/off over 2-3 parsers '
                'sharing one small namespace, every parser compared with itself alone in a pristine process; nest: one run = an outer evaluation whose callback site '
                '(custom function or listener of any of the four event kinds) evaluates a complete formula on another pre-built '
                'parser, the same parser, or a parser built on the spot, to depth 2, compared bottom-up with nesting-free '
                'references; evaluations = top-level evaluations under the schedule / outer evaluations; distinct = distinct '
                '(slots, tasks, observed decision list) resp. (slots, outer formula); non-trivial = at least one context switch '
                'happened inside an evaluation resp. at least one nested evaluation was actually performed',
        'fault_kinds': ['ctx_switch', 'schedule_random', 'schedule_single', 'schedule_pingpong', 'single_interposition_point', 'double_preemption_point', 'cold_start_interposition_point', 'cross_thread_nesting',
                        'nested_other', 'nested_same', 'nested_build', 'nested_depth2', 'cb_raise', 'listener_raise',
                        'isolation_op_var', 'isolation_op_fn', 'isolation_op_on', 'isolation_op_once', 'isolation_op_off',
                        'isolation_op_offcb'],
        'real_vs_stub': {'hotxlfp (all of it)': 'real', 'ply lex/yacc, dateutil': 'real', 'host callbacks': 'scripted',
                         'caller threads': 'real threading.Thread objects; who runs is decided only by the simulator (baton)',
                         'OS scheduler / GIL switching': 'replaced by the seeded decision list',
                         'clock/random/stderr': 'stub (frozen SimClock, constant SimRandom, sink)'},
        'assumptions': [
            'pre-emption granularity is a source line of hotxlfp/ply code (bytecode granularity was tried and dropped: CPython 3.12 instruments opcode events lazily per code object, which broke run-to-run determinism)',
            'parsers are constructed on the main thread before the schedule starts; concurrent construction is not explored',
            'one parser object is never used by two threads at once (the property speaks of different parser objects)',
            'a nested evaluation that itself escapes parse() discards the scenario (that is C01 matter)',
        ],
    }
