"""C10 - reference events deliver canonical coordinates, once, in evaluation order.

The simulated party is the listener side of the event protocol: 0-3 scripted listeners per
event kind that set values (unique tokens, falsy values, None, twice), skip, unsubscribe
themselves, subscribe others, evaluate nested formulas on the same or another parser, or (fault
runs) raise.  The formula is generated as a tree the generator keeps; an executable reference
model derives the expected delivery log (kind, payload, order, multiplicity) and the value every
reference contributes, and the real parser's deliveries are compared entry by entry.
"""
from collections import Counter

from hxsim import canon, scen, seams
from hxsim import values as V
from hxsim.host import World
from hxsim.stepclock import StepBudgetExceeded, StepClock

PROPERTY = 'C10'
STREAMS = {
    'clean': {'quick': 110000, 'thorough': 2500000, 'chunk': 1000},
    'fault': {'quick': 40000, 'thorough': 900000, 'chunk': 800},
}
UNKNOWN = ('?',)
KINDS = {'cell': 'callCellValue', 'range': 'callRangeValue', 'var': 'callVariable', 'call': 'callFunction'}
BUILTINS = ['SUM', 'CONCATENATE', 'MAX', 'LEN', 'TEXTJOIN', 'AND', 'COUNT', 'ISBLANK', 'T', 'N']
COLS = ['A', 'B', 'C', 'Z', 'AA', 'AZ', 'BA', 'ZZ', 'AAA', 'XFD', 'XFE', 'ZZZ', 'AAAA', 'ZZZZ']
ROWS = [1, 2, 3, 9, 10, 11, 99, 100, 65536, 1048575, 1048576, 1048577]
VARS = ['va', 'Rate', 'x_1', 'pt.x', 'TRUE', 'FALSE', 'NULL', 'unb', 'long_variable_name', 'Q']


def config(tier, seed):
    return {}


# ---------------------------------------------------------------- independent label arithmetic
def col_index(letters):
    n = 0
    for ch in letters.upper():
        n = n * 26 + (ord(ch) - 64)
    return n - 1


def col_letters(idx):
    n = idx + 1
    out = ''
    while n > 0:
        n, r = divmod(n - 1, 26)
        out = chr(65 + r) + out
    return out


def split_label(text):
    """'$a$12' -> (col_abs, 'A', row_abs, 12)"""
    t = text
    ca = t.startswith('$')
    if ca:
        t = t[1:]
    k = 0
    while t[k].isalpha():
        k += 1
    letters, t = t[:k], t[k:]
    ra = t.startswith('$')
    if ra:
        t = t[1:]
    return ca, letters.upper(), ra, int(t)


def expect_cell(text):
    ca, letters, ra, row = split_label(text)
    return {'label': text.upper(), 'row': row - 1, 'row_abs': ra, 'col': col_index(letters), 'col_abs': ca}


def compose(col, col_abs, row, row_abs):
    return ('$' if col_abs else '') + col_letters(col) + ('$' if row_abs else '') + str(row + 1)


# ---------------------------------------------------------------- generation
_LABEL_POOL = []


def _label(rng):
    # half of the labels of a scenario come from a small pool, so that the same cell shows up as a
    # single reference, as a range corner and in several corner orders within one formula
    if _LABEL_POOL and rng.random() < 0.5:
        lab = rng.choice(_LABEL_POOL)
        if rng.random() < 0.5:
            return lab
        ca, letters, ra, row = split_label(lab)
        k = rng.randrange(4)
        return ('$' if k & 1 else '') + letters + ('$' if k & 2 else '') + str(row)
    lab = _fresh_label(rng)
    if len(_LABEL_POOL) < 4:
        _LABEL_POOL.append(lab)
    return lab


def _fresh_label(rng):
    col = rng.choice(COLS) if rng.random() < 0.7 else col_letters(rng.randrange(0, 20000))
    if rng.random() < 0.4:
        col = ''.join(rng.choice([c.lower(), c]) for c in col)
    row = rng.choice(ROWS) if rng.random() < 0.7 else rng.randrange(1, 1048578)
    k = rng.randrange(4)
    return ('$' if k & 1 else '') + col + ('$' if k & 2 else '') + str(row)


class TreeGen(object):
    def __init__(self, rng, fn_arity, deny=()):
        self.rng = rng
        self.fn_arity = fn_arity
        self.deny = set(deny)
        self.refs = 0

    def leaf(self):
        rng = self.rng
        for _ in range(8):
            k = rng.randrange(10)
            if k <= 2 and 'cell' not in self.deny:
                self.refs += 1
                return ['cell', _label(rng)]
            if k <= 4 and 'range' not in self.deny:
                self.refs += 1
                return ['range', _label(rng), _label(rng)]
            if k <= 6 and 'var' not in self.deny:
                self.refs += 1
                return ['var', rng.choice(VARS)]
            if k == 7:
                return ['num', str(rng.randrange(0, 1000))]
            if k == 8:
                return ['str', rng.choice(['abc', '', 'x y', '12', 'A1', 'é'])]
            if 'call' not in self.deny:
                return self.call(0)
        return ['num', '7']

    def call(self, depth):
        rng = self.rng
        self.refs += 1
        if rng.random() < 0.7:
            name = rng.choice(sorted(self.fn_arity))
            n = self.fn_arity[name] if rng.random() < 0.85 else rng.randrange(0, 4)
        else:
            name = rng.choice(BUILTINS)
            n = rng.randrange(1, 4)
            if name in ('LEN', 'ISBLANK', 'T', 'N'):
                n = 1
            if name == 'TEXTJOIN':
                n = rng.randrange(3, 5)
        sep = ',' if rng.random() < 0.85 else rng.choice([';', '\\'])
        args = []
        for _ in range(n):
            if rng.random() < 0.06 and n >= 2:
                args.append(None)
            else:
                args.append(self.expr(depth - 1))
        if args and all(a is None for a in args):
            args[0] = self.leaf()
        if len(args) == 1 and args[0] is None:
            args = []
        return ['call', name, sep, args]

    def expr(self, depth):
        rng = self.rng
        if depth <= 0:
            return self.leaf()
        k = rng.randrange(12)
        if k <= 2:
            return self.leaf()
        if k <= 5 and 'call' not in self.deny:
            return self.call(depth)
        if k == 6:
            return ['par', self.expr(depth - 1)]
        if k == 7:
            return ['neg', self.expr(depth - 1)]
        if k == 8:
            sep = rng.choice([',', ';', '\\'])
            return ['arr', sep, [self.expr(depth - 1) for _ in range(rng.randrange(1, 4))]]
        ops = ['&', '&', '+', '-', '*', '=', '<>', '<', '>', '<=', '>=']
        if k == 9:
            # flat operator chain without parentheses: the parse structure follows precedence, the
            # events still come in text order; the model treats the value as unknown
            n = rng.randrange(2, 5)
            return ['chain', [rng.choice(ops) for _ in range(n - 1)], [self.operand(depth - 1) for _ in range(n)]]
        return ['bin', rng.choice(ops), self.expr(depth - 1), self.expr(depth - 1)]

    def operand(self, depth):
        t = self.expr(depth)
        if t[0] in ('bin', 'chain'):
            return ['par', t]
        return t


def render(t, spaced=False):
    k = t[0]
    if k == 'cell':
        return t[1]
    if k == 'range':
        return t[1] + ':' + t[2]
    if k == 'var':
        return t[1]
    if k == 'num':
        return t[1]
    if k == 'str':
        return '"' + t[1] + '"'
    if k == 'call':
        sep = t[2] + (' ' if spaced else '')
        return '%s(%s)' % (t[1], sep.join('' if a is None else render(a, spaced) for a in t[3]))
    if k == 'par':
        return '(' + render(t[1], spaced) + ')'
    if k == 'neg':
        return '-' + _operand(t[1], spaced)
    if k == 'arr':
        return '{' + t[1].join(render(a, spaced) for a in t[2]) + '}'
    if k == 'bin':
        sp = ' ' if spaced else ''
        return _operand(t[2], spaced) + sp + t[1] + sp + _operand(t[3], spaced)
    if k == 'chain':
        sp = ' ' if spaced else ''
        out = render(t[2][0], spaced)
        for op, x in zip(t[1], t[2][1:]):
            out += sp + op + sp + render(x, spaced)
        return out
    raise AssertionError(k)


def _operand(t, spaced):
    if t[0] in ('bin', 'chain'):
        return '(' + render(t, spaced) + ')'
    return render(t, spaced)


class Tokens(object):
    """Unique setter / return values, so that every value is attributable to one event."""

    def __init__(self, rng):
        self.rng = rng
        self.n = 0

    def unique(self):
        self.n += 1
        if self.rng.random() < 0.7:
            return V.I(1000 + self.n * 7)
        return V.S('tok%d' % self.n)

    def pick(self):
        r = self.rng.random()
        if r < 0.62:
            return self.unique()
        if r < 0.70:
            # text that looks like a piece of the grammar (a grammar action must not mistake a value for a token)
            return V.S(self.rng.choice(['(', ')', ',', ';', '{', '}', '"', '=', '&', ':', '\\', '-', '%', '.', '#N/A', 'TRUE', 'A1', ' ']))
        return self.rng.choice([V.I(0), V.FALSE, V.S(''), V.L(), V.NONE, V.F(0.0), V.TRUE, V.L(V.I(1), V.I(2))])


def _gen_script(rng, tok, kind, fault, extras):
    script = []
    for _ in range(rng.choice([1, 1, 2, 3])):
        r = rng.random()
        if fault and r < 0.25:
            script.append({'a': 'raise', 'e': rng.choice(scen.BENIGN_EXC), 'm': 'boom'})
        elif r < 0.12 + (0.25 if fault else 0) and kind in ('callCellValue', 'callRangeValue'):
            script.append({'a': 'table'})
        elif r < 0.46:
            script.append({'a': 'set', 'v': [tok.pick()]})
        elif r < 0.5:
            script.append({'a': 'set_in_thread', 'v': [tok.pick()]})
        elif r < 0.62:
            script.append({'a': 'set', 'v': [tok.pick(), tok.pick()]})
        elif r < 0.74:
            script.append({'a': 'noset'})
        elif r < 0.80:
            script.append({'a': 'set', 'v': [V.NONE]})
        elif r < 0.86 and extras:
            a = {'a': 'off_self'}
            if rng.random() < 0.6:
                a['v'] = tok.pick()
            script.append(a)
        elif r < 0.92 and extras:
            a = {'a': 'on_other', 'id': 10 + rng.randrange(1000), 'once': rng.random() < 0.3,
                 'script': [{'a': 'set', 'v': [tok.pick()]}]}
            if rng.random() < 0.5:
                a['v'] = tok.pick()
            script.append(a)
        else:
            script.append({'a': 'set', 'v': [tok.pick()]})
    return script


def gen(stream, rng, i, cfg):
    fault = stream == 'fault'
    del _LABEL_POOL[:]
    tok = Tokens(rng)
    nslots = 2 if rng.random() < 0.3 else 1
    slots = []
    fn_arity = {}
    for k in range(4):
        fn_arity['REC%d' % k] = rng.randrange(0, 5)
    for s in range(nslots):
        slot = {'debug': False, 'variables': {}, 'functions': {}, 'listeners': {}}
        for name in ['va', 'Rate', 'x_1', 'pt', 'long_variable_name', 'Q']:
            if rng.random() < 0.75:
                slot['variables'][name] = tok.pick()
        for name in fn_arity:
            slot['functions'][name] = [{'a': 'ret', 'v': tok.unique()} for _ in range(rng.randrange(1, 5))]
            if fault and rng.random() < 0.1:
                slot['functions'][name][rng.randrange(len(slot['functions'][name]))] = {'a': 'raise', 'e': rng.choice(scen.BENIGN_EXC), 'm': 'x'}
        for kind in KINDS.values():
            n = rng.choice([0, 1, 1, 2, 3])
            if n:
                slot['listeners'][kind] = [_gen_script(rng, tok, kind, fault, True) for _ in range(n)]
        slots.append(slot)
    tg = TreeGen(rng, fn_arity)
    tree = tg.expr(rng.choice([0, 1, 2, 2, 3, 3, 4]))
    # nested evaluation from a listener (E7): inner formula on the other / same parser
    if rng.random() < 0.2:
        kind = rng.choice(sorted(KINDS))
        ev = KINDS[kind]
        target = rng.randrange(nslots)
        inner = TreeGen(rng, fn_arity).expr(rng.choice([0, 0, 1, 2]))
        # the nested evaluation fires from the outermost evaluation only (maxdepth 1), so the inner formula
        # may contain references of the very kind whose listener nests; 'use': False = audit hook
        act = {'a': 'nested', 'slot': target, 'f': render(inner), 'tree': inner, 'tap': 'inner', 'maxdepth': 1,
               'use': rng.random() < 0.6}
        pos = rng.randrange(len(slots[0]['listeners'].get(ev, [])) + 1)
        slots[0]['listeners'].setdefault(ev, []).insert(pos, [act])
        if target != 0:
            # the inner parser must not nest back
            pass
    return {'slots': slots, 'tree': tree, 'spaced': rng.random() < 0.3, 'fault': fault,
            'clock': '2024-02-29T13:14:15.161718', 'rand': 0.25}


# ---------------------------------------------------------------- reference model
class ModelAbort(Exception):
    def __init__(self, code):
        Exception.__init__(self, code)
        self.code = code


class Model(object):
    def __init__(self, sc, full=False):
        self.sc = sc
        self.full = full      # maximal log for failing evaluations: nobody ever unsubscribes
        self.logs = [[] for _ in sc['slots']]
        self.listeners = []
        self.vars = []
        self.fns = []
        self.frames = [[] for _ in sc['slots']]
        self.faulted = False
        self.nested_done = 0
        self.depth = 0
        self.unsafe = False      # the formula contains something that may legitimately fail at run time
        for spec in sc['slots']:
            ls = {}
            for ev in KINDS.values():
                ls[ev] = [{'idx': i, 'script': s, 'once': False} for i, s in enumerate(spec.get('listeners', {}).get(ev, []))]
            self.listeners.append(ls)
            vs = {'TRUE': True, 'FALSE': False, 'NULL': None}
            for name, v in spec.get('variables', {}).items():
                vs[name] = V.dec(v)
            self.vars.append(vs)
            self.fns.append(dict(spec.get('functions', {})))

    def _inv(self, s, key):
        fr = self.frames[s][-1]
        n = fr[key]
        fr[key] = n + 1
        return n

    def evaluate(self, s, tree):
        self.frames[s].append(Counter())
        self.depth += 1
        try:
            return self.ev(s, tree)
        finally:
            self.depth -= 1
            self.frames[s].pop()

    def emit(self, s, ev, payload, value):
        snapshot = list(self.listeners[s][ev])
        for L in snapshot:
            n = self._inv(s, 'l:%s#%d' % (ev, L['idx']))
            script = L['script']
            act = script[n] if n < len(script) else script[-1]
            self.logs[s].append([ev, L['idx'], payload, self.depth])
            if L['once'] and not self.full:
                self.listeners[s][ev] = [x for x in self.listeners[s][ev] if x is not L]
            a = act['a']
            if a in ('set', 'set_in_thread'):
                for j in act['v']:
                    o = V.dec(j)
                    if o is not None:
                        value = o
            elif a == 'table':
                if payload[0] == 'cell':
                    e = payload[1]
                    value = '%s|%s|%s|%s|%s' % (e['label'], e['row'], e['col'], e['row_abs'], e['col_abs'])
                elif payload[0] == 'range':
                    value = UNKNOWN
            elif a == 'raise':
                self.faulted = True     # treated as a skip; the run is only held to E5
            elif a == 'off_self':
                if not self.full:
                    self.listeners[s][ev] = [x for x in self.listeners[s][ev] if x is not L]
                if 'v' in act:
                    o = V.dec(act['v'])
                    if o is not None:
                        value = o
            elif a == 'on_other':
                self.listeners[s][ev] = self.listeners[s][ev] + [{'idx': act['id'], 'script': act['script'], 'once': bool(act.get('once'))}]
                if 'v' in act:
                    o = V.dec(act['v'])
                    if o is not None:
                        value = o
            elif a == 'nested':
                if self.depth > act.get('maxdepth', 99):
                    continue
                self.nested_done += 1
                try:
                    v = self.evaluate(act['slot'], act['tree'])
                except ModelAbort:
                    v = UNKNOWN      # the inner record carries an error: an error object is handed on
                # (an inner evaluation that fails in a way the model does not predict is detected on the
                # real side through the tapped record, and the run is then not judged exactly)
                if act.get('use', True):
                    if v is UNKNOWN or _has_unknown(v):
                        value = UNKNOWN
                    elif v is not None:
                        value = v
        return value

    def ev(self, s, t):
        k = t[0]
        if k == 'num':
            return int(t[1])
        if k == 'str':
            return t[1]
        if k == 'par':
            return self.ev(s, t[1])
        if k == 'neg':
            v = self.ev(s, t[1])
            if type(v) is int:
                return -v
            self.unsafe = True
            return UNKNOWN
        if k == 'arr':
            return [self.ev(s, a) for a in t[2]]
        if k == 'chain':
            for x in t[2]:
                self.ev(s, x)
            if any(op != '&' for op in t[1]):
                self.unsafe = True
            return UNKNOWN
        if k == 'bin':
            a = self.ev(s, t[2])
            b = self.ev(s, t[3])
            if type(a) is int and type(b) is int and t[1] in '+-*':
                return a + b if t[1] == '+' else (a - b if t[1] == '-' else a * b)
            if t[1] != '&' and not (type(a) is int and type(b) is int):
                self.unsafe = True
            return UNKNOWN
        if k == 'cell':
            e = expect_cell(t[1])
            return self.emit(s, 'callCellValue', ['cell', e], None)
        if k == 'range':
            return self.emit(s, 'callRangeValue', ['range', t[1], t[2]], None)
        if k == 'var':
            name = t[1].split('.')[0]
            missing = object()
            v = self.emit(s, 'callVariable', ['var', name], self.vars[s].get(name, missing))
            if v is missing:
                raise ModelAbort('#NAME?')
            return v
        if k == 'call':
            args = [None if a is None else self.ev(s, a) for a in t[3]]
            name = t[1]
            if sum(1 for a in t[3] if a is None) > 1:
                self.unsafe = True      # the grammar accepts one empty argument slot per call, not every combination of several
            if name in self.fns[s]:
                n = self._inv(s, 'f:' + name)
                script = self.fns[s][name]
                act = script[n] if n < len(script) else script[-1]
                self.logs[s].append(['fn', name, args, self.depth])
                if act['a'] == 'raise':
                    self.faulted = True
                    value = UNKNOWN
                else:
                    value = V.dec(act['v'])
            else:
                value = UNKNOWN
                self.unsafe = True          # a built-in may reject its arguments
            return self.emit(s, 'callFunction', ['call', name, args], value)
        raise AssertionError(k)


def _has_unknown(v):
    if v is UNKNOWN:
        return True
    if isinstance(v, list):
        return any(_has_unknown(x) for x in v)
    return False


# ---------------------------------------------------------------- comparing model and real entries
def value_matches(mv, real_canon):
    """mv: model value (may contain UNKNOWN); real_canon: canon() of the delivered value."""
    if mv is UNKNOWN:
        return True
    if isinstance(mv, list):
        if real_canon[0] != 'list' or len(real_canon[1]) != len(mv):
            return False
        return all(value_matches(a, b) for a, b in zip(mv, real_canon[1]))
    return canon.canon(mv) == real_canon


def cell_matches(exp, p):
    """exp from expect_cell; p = [label, [idx,label,abs], [idx,label,abs]] as delivered."""
    try:
        return (p[0] == exp['label'] and p[1][0] == exp['row'] and p[1][2] == exp['row_abs']
                and p[2][0] == exp['col'] and p[2][2] == exp['col_abs'])
    except (IndexError, TypeError):
        return False


def range_problem(t1, t2, p):
    """None if the delivered pair is the top-left / bottom-right of the written corners, each cell's
    label recomposing from its own parts; else a short description."""
    a, b = expect_cell(t1), expect_cell(t2)
    try:
        s, e = p[0], p[1]
        srow, scol, erow, ecol = s[1], s[2], e[1], e[2]
        if srow[0] != min(a['row'], b['row']) or erow[0] != max(a['row'], b['row']):
            return 'rows not normalised'
        if scol[0] != min(a['col'], b['col']) or ecol[0] != max(a['col'], b['col']):
            return 'columns not normalised'
        if sorted([(srow[0], srow[2]), (erow[0], erow[2])]) != sorted([(a['row'], a['row_abs']), (b['row'], b['row_abs'])]):
            return 'row absolute markers do not travel with their rows'
        if sorted([(scol[0], scol[2]), (ecol[0], ecol[2])]) != sorted([(a['col'], a['col_abs']), (b['col'], b['col_abs'])]):
            return 'column absolute markers do not travel with their columns'
        if a['row'] <= b['row'] and a['col'] <= b['col'] and (a['row'], a['col']) != (b['row'], b['col']):
            # written top-left:bottom-right already: the two cells come back exactly as written
            for nm, exp, cell in (('first', a, s), ('second', b, e)):
                if not cell_matches(exp, cell):
                    return '%s cell of a range written in canonical order differs from the cell as written (%r)' % (nm, exp['label'])
        for nm, cell in (('first', s), ('second', e)):
            want = compose(cell[2][0], cell[2][2], cell[1][0], cell[1][2])
            if cell[0] != want:
                return '%s cell label %r does not agree with its coordinates (%r)' % (nm, cell[0], want)
    except (IndexError, TypeError):
        return 'malformed payload'
    return None


def entry_problem(m, r):
    """m: model log entry, r: real log entry (slot already stripped).  None if they match."""
    if m[0] == 'fn':
        if r[0] != 'fn' or r[1] != m[1]:
            return 'expected custom function %s to be invoked' % m[1]
        if not value_matches(m[2], r[2]):
            return 'arguments of %s differ' % m[1]
        return None
    if r[0] != m[0] or r[1] != m[1]:
        return 'expected %s delivered to listener %s' % (m[0], m[1])
    pm, pr = m[2], r[2]
    if pm[0] == 'cell':
        return None if cell_matches(pm[1], pr) else 'cell payload differs'
    if pm[0] == 'range':
        return range_problem(pm[1], pm[2], pr)
    if pm[0] == 'var':
        return None if pr == [pm[1]] else 'variable name differs'
    if pm[0] == 'call':
        if pr[0] != pm[1]:
            return 'function name differs'
        return None if value_matches(pm[2], pr[1]) else 'arguments of %s differ' % pm[1]
    return 'unknown entry'


def same_reference(m, r):
    """Loose identity for failing evaluations: same construct (kind, name / label / corners), whatever
    listener it went to and whatever argument values it carried."""
    if m[0] == 'fn' or r[0] == 'fn':
        return m[0] == r[0] and m[1] == r[1]
    if m[0] != r[0]:
        return False
    pm, pr = m[2], r[2]
    if pm[0] == 'cell':
        return cell_matches(pm[1], pr)
    if pm[0] == 'range':
        return range_problem(pm[1], pm[2], pr) is None
    if pm[0] == 'var':
        return pr == [pm[1]]
    if pm[0] == 'call':
        return pr[0] == pm[1]
    return False


def _groups(log, model_side):
    """Consecutive deliveries of one event: a new group starts when the construct changes or a
    listener index repeats."""
    groups = []
    for e in log:
        idx = e[1] if e[0] != 'fn' else None
        if groups:
            g = groups[-1]
            first = g['first']
            same = (same_reference(first, e) if model_side is False else _same_model(first, e))
            if same and e[0] != 'fn' and idx not in g['idx']:
                g['idx'].add(idx)
                continue
        groups.append({'first': e, 'idx': set([idx])})
    return groups


def _same_model(a, b):
    return a[0] == b[0] and a[0] != 'fn' and a[2] == b[2]


def is_subsequence(model, real):
    """Every delivered event corresponds to a distinct event of the model, in the model's order."""
    mg = _groups(model, True)
    # real groups are formed against the model entry they match: walk greedily
    j = 0
    k = 0
    while k < len(real):
        r = real[k]
        while j < len(mg) and not same_reference(mg[j]['first'], r):
            j += 1
        if j >= len(mg):
            return False
        # consume all consecutive real deliveries of this same event (distinct listeners)
        seen = set()
        while k < len(real) and same_reference(mg[j]['first'], real[k]):
            idx = real[k][1] if real[k][0] != 'fn' else None
            if idx in seen:
                break          # a listener index repeats: that is the next event
            seen.add(idx)
            k += 1
        j += 1
    return True


# ---------------------------------------------------------------- execution
def _show(e):
    return canon.dumps(e)[:300] if not isinstance(e, str) else e


def execute(sc, stats):
    seams.CLOCK.set(sc['clock'])
    seams.CLOCK.tick = None
    seams.RANDOM.c = sc['rand']
    formula = render(sc['tree'], sc.get('spaced', False))
    model = Model(sc)
    m_abort = None
    m_value = UNKNOWN
    try:
        m_value = model.evaluate(0, sc['tree'])
    except ModelAbort as e:
        m_abort = e.code
    except RecursionError:
        stats['discarded_recursion'] += 1
        return []
    world = World(scen.clone(_strip_trees(sc['slots'])), logging=True)
    clock = StepClock(reach=(sc.get('_run', 0) % 16 == 0))
    clock.arm(budget=scen.budget(formula, 500) * 4)
    try:
        ret = world.evaluate(0, formula)
    except StepBudgetExceeded:
        ret = {'result': None, 'error': 'budget'}
    except BaseException as e:
        if isinstance(e, (KeyboardInterrupt, SystemExit)):
            raise
        ret = {'result': None, 'error': 'raised:' + type(e).__name__}
    finally:
        clock.disarm()
    stats['evals'] += 1
    stats['steps'] += clock.steps
    if clock.reach is not None:
        sc['_reach'] = clock.reach_list()
    for kname, n in world.fired.items():
        stats['fault:' + kname] += n
    nslots = len(sc['slots'])
    real_logs = [[] for _ in range(nslots)]
    for e in world.log:
        real_logs[e[0]].append(e[1:])
    nev = sum(len(l) for l in real_logs)
    stats['events_delivered'] += nev
    sc['_nev'] = nev
    for t in _walk(sc['tree']):
        stats['probe:node_' + t[0]] += 1
        if t[0] == 'range':
            a, b = expect_cell(t[1]), expect_cell(t[2])
            stats['probe:range_corner_order[%s%s]' % ('r' if a['row'] > b['row'] else 'n', 'c' if a['col'] > b['col'] else 'n')] += 1
    err = ret.get('error') if type(ret) is dict else 'nonrecord'
    vio = []
    inner_failed = any(type(r) is not dict or r.get('error') is not None for r in world.taps.get('inner', []))
    if inner_failed:
        stats['nested_inner_failed'] += 1
    precise = (err is None and not model.faulted and m_abort is None and not inner_failed)
    if precise:
        stats['judged_exact'] += 1
        for s in range(nslots):
            ml, rl = model.logs[s], real_logs[s]
            prob = None
            where = None
            for d in range(max(len(ml), len(rl))):
                if d >= len(rl):
                    prob, where = 'event missing: %s' % _show(ml[d]), d
                    break
                if d >= len(ml):
                    prob, where = 'unexpected extra delivery: %s' % _show(rl[d]), d
                    break
                p = entry_problem(ml[d], rl[d])
                if p is not None:
                    prob, where = p, d
                    break
            if prob is not None:
                inv = 'E3_range_payload' if (where < len(ml) and ml[where][0] == 'callRangeValue' and where < len(rl) and rl[where][0] == 'callRangeValue') else \
                      ('E2_cell_payload' if prob == 'cell payload differs' else ('E4_reference_value' if 'arguments' in prob else 'E1_delivery_log'))
                vio.append({'invariant': inv, 'sig': inv[:2],
                            'detail': {'formula': formula, 'slot': s, 'position': where, 'problem': prob,
                                       'model': _show(ml[where]) if where < len(ml) else None,
                                       'real': _show(rl[where]) if where < len(rl) else None}})
                break
        if not vio and not value_matches(m_value, canon.canon(ret.get('result'))):
            vio.append({'invariant': 'E4_reference_value', 'sig': 'E4',
                        'detail': {'formula': formula, 'problem': 'value of the whole formula differs',
                                   'model': _show(canon.canon(m_value) if not _has_unknown(m_value) else str(m_value)),
                                   'real': _show(canon.canon(ret.get('result')))}})
    elif err is None and m_abort is not None and not inner_failed and not model.faulted:
        stats['skipped_model_abort_but_real_ok'] += 1
    elif (err is not None and not model.unsafe and not model.faulted and m_abort is None and not inner_failed
          and model.nested_done == 0):
        # only references, recording functions, '&', integer arithmetic, arrays and parentheses, nothing raises, every
        # name is bound: such a formula cannot fail, so its references were not all evaluated exactly once
        stats['judged_must_not_fail'] += 1
        vio.append({'invariant': 'E1_delivery_log', 'sig': 'E1:failed',
                    'detail': {'formula': formula, 'problem': 'a formula that cannot fail ended with %s: not every reference was evaluated' % err,
                               'events_expected': sum(len(l) for l in model.logs), 'events_delivered': nev}})
    else:
        # the evaluation failed (fault injected, unbound name, or a value error): at most once, in order
        stats['judged_subsequence'] += 1
        if m_abort is not None and not model.faulted and err == m_abort:
            # the model knows exactly where an unbound name stops the evaluation
            stats['judged_exact_prefix'] += 1
        for s in range(nslots):
            # under faults a nested evaluation may happen at a later event than in the model (invocation
            # counts shift), so only the outer evaluation's own events are held to order here
            outer_real = [e for e in real_logs[s] if e[3] == 1]
            outer_model = [e for e in _model_full(sc, s) if e[3] == 1]
            if not is_subsequence(outer_model, outer_real):
                vio.append({'invariant': 'E5_at_most_once_in_order', 'sig': 'E5',
                            'detail': {'formula': formula, 'slot': s, 'error': err,
                                       'real_log': [_show(e) for e in real_logs[s][:12]],
                                       'model_log': [_show(e) for e in model.logs[s][:12]]}})
                break
    return vio


def _model_full(sc, s):
    """Model log with unbound names treated as bound (so that the log is not cut short)."""
    sc2 = scen.clone(sc)
    for spec in sc2['slots']:
        for name in VARS:
            if name not in ('TRUE', 'FALSE', 'NULL'):
                spec['variables'].setdefault(name.split('.')[0], V.I(1))
    m = Model(sc2, full=True)
    try:
        m.evaluate(0, sc2['tree'])
    except (ModelAbort, RecursionError):
        pass
    return m.logs[s]


def _strip_trees(slots):
    return slots


def _walk(t):
    yield t
    k = t[0]
    if k in ('par', 'neg'):
        for x in _walk(t[1]):
            yield x
    elif k == 'arr':
        for a in t[2]:
            for x in _walk(a):
                yield x
    elif k == 'bin':
        for a in (t[2], t[3]):
            for x in _walk(a):
                yield x
    elif k == 'chain':
        for a in t[2]:
            for x in _walk(a):
                yield x
    elif k == 'call':
        for a in t[3]:
            if a is not None:
                for x in _walk(a):
                    yield x


def nontrivial(sc, stats):
    if sc.pop('_nev', 0) < 1:
        return None
    return canon.digest_int([sc['slots'], sc['tree']])


# ---------------------------------------------------------------- shrinking
def _subtrees(t):
    k = t[0]
    if k in ('par', 'neg'):
        yield t[1]
    elif k == 'arr':
        for a in t[2]:
            yield a
    elif k == 'bin':
        yield t[2]
        yield t[3]
    elif k == 'call':
        for a in t[3]:
            if a is not None:
                yield a


def _replace(t, path, new):
    if not path:
        return new
    t = list(t)
    k = t[0]
    i = path[0]
    if k in ('par', 'neg'):
        t[1] = _replace(t[1], path[1:], new)
    elif k == 'arr':
        t[2] = list(t[2])
        t[2][i] = _replace(t[2][i], path[1:], new)
    elif k == 'bin':
        t[2 + i] = _replace(t[2 + i], path[1:], new)
    elif k == 'chain':
        t[2] = list(t[2])
        t[2][i] = _replace(t[2][i], path[1:], new)
    elif k == 'call':
        t[3] = list(t[3])
        t[3][i] = _replace(t[3][i], path[1:], new)
    return t


def _paths(t, prefix=()):
    yield prefix, t
    k = t[0]
    if k in ('par', 'neg'):
        for x in _paths(t[1], prefix + (0,)):
            yield x
    elif k == 'arr':
        for i, a in enumerate(t[2]):
            for x in _paths(a, prefix + (i,)):
                yield x
    elif k == 'bin':
        for i in (0, 1):
            for x in _paths(t[2 + i], prefix + (i,)):
                yield x
    elif k == 'chain':
        for i, a in enumerate(t[2]):
            for x in _paths(a, prefix + (i,)):
                yield x
    elif k == 'call':
        for i, a in enumerate(t[3]):
            if a is not None:
                for x in _paths(a, prefix + (i,)):
                    yield x


def shrink_candidates(sc):
    tree = sc['tree']
    # hoist any subtree to the root
    for path, sub in _paths(tree):
        if path:
            d = dict(sc)
            d['tree'] = sub
            yield d
    # replace a subtree by a literal
    for path, sub in _paths(tree):
        if path and sub[0] != 'num':
            d = dict(sc)
            d['tree'] = _replace(tree, list(path), ['num', '7'])
            yield d
    # drop call arguments
    for path, sub in _paths(tree):
        if sub[0] == 'call' and sub[3]:
            for i in range(len(sub[3])):
                new = [sub[0], sub[1], sub[2], sub[3][:i] + sub[3][i + 1:]]
                d = dict(sc)
                d['tree'] = _replace(tree, list(path), new) if path else new
                yield d
    if len(sc['slots']) > 1 and not any(a.get('slot') == 1 for s in sc['slots'] for ls in s['listeners'].values() for scr in ls for a in scr):
        d = dict(sc)
        d['slots'] = sc['slots'][:1]
        yield d
    for si, slot in enumerate(sc['slots']):
        for s in scen.shrink_slot(slot):
            d = dict(sc)
            d['slots'] = sc['slots'][:si] + [s] + sc['slots'][si + 1:]
            yield d
    if sc.get('spaced'):
        d = dict(sc)
        d['spaced'] = False
        yield d


def describe():
    return {
        'rule': 'one evaluation = one formula generated as a tree (cells with any case / $ pattern / columns A..ZZZZ / rows '
                '1..1048577, ranges in all four corner orders, variables incl. dotted and TRUE/FALSE/NULL, recording custom '
                'functions of arity 0-4, built-ins, unary minus, binary operators, parentheses, arrays, empty argument slots) '
                'evaluated on a parser whose 0-3 listeners per event kind follow scripts; the delivered log (listener '
                'deliveries and custom-function invocations with payloads) is compared entry by entry with the reference '
                'model; distinct = distinct (host spec, tree) by blake2b digest; non-trivial = at least one event was delivered',
        'fault_kinds': ['setter_none', 'setter_falsy', 'setter_twice', 'setter_skipped', 'reentrant_off', 'reentrant_on',
                        'nested_same', 'nested_other', 'listener_raise', 'cb_raise'],
        'real_vs_stub': {'hotxlfp (all of it)': 'real', 'ply lex/yacc': 'real', 'listeners and custom functions': 'scripted',
                         'clock/random/stderr': 'stub', 'threads': 'none (C03 engine T compares per-parser callback logs under the scheduler)'},
        'assumptions': [
            'exactly-once/order/payload (E1-E4) are enforced on evaluations that end without error; failing evaluations are held to at-most-once and order (E5)',
            'for a range whose corners share a row (or column) the absolute markers may end up on either cell',
            'operand values the model cannot know (results of operators on non-integers, built-ins) are wildcards',
            'row labels carry no leading zeros',
        ],
    }
