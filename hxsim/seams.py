"""Seams for the sources of nondeterminism hotxlfp touches: clock, random, stderr."""
import datetime as _real_dt
import io
import random as _real_random
import sys
import types


class SimClock(object):
    """Simulated wall clock.  `tick` (timedelta) is added after every read."""

    def __init__(self):
        self.now = _real_dt.datetime(2024, 2, 29, 13, 14, 15, 161718)
        self.tick = None
        self.reads = 0

    def set(self, iso):
        self.now = _real_dt.datetime.fromisoformat(iso) if isinstance(iso, str) else iso

    def read(self):
        self.reads += 1
        v = self.now
        if self.tick is not None:
            try:
                self.now = self.now + self.tick
            except OverflowError:
                pass
        return v


CLOCK = SimClock()


class _Meta(type):
    def __instancecheck__(cls, inst):
        return isinstance(inst, cls.__real__)

    def __subclasscheck__(cls, sub):
        return issubclass(sub, cls.__real__)


class _ShimDatetime(_real_dt.datetime, metaclass=_Meta):
    __real__ = _real_dt.datetime

    def __new__(cls, *a, **k):
        return _real_dt.datetime(*a, **k)

    @classmethod
    def now(cls, tz=None):
        v = CLOCK.read()
        return v if tz is None else v.replace(tzinfo=tz)

    @classmethod
    def utcnow(cls):
        return CLOCK.read()

    @classmethod
    def today(cls):
        return CLOCK.read()

    combine = _real_dt.datetime.combine
    fromtimestamp = _real_dt.datetime.fromtimestamp
    fromordinal = _real_dt.datetime.fromordinal
    fromisoformat = _real_dt.datetime.fromisoformat
    strptime = _real_dt.datetime.strptime
    min = _real_dt.datetime.min
    max = _real_dt.datetime.max


class _ShimDate(_real_dt.date, metaclass=_Meta):
    __real__ = _real_dt.date

    def __new__(cls, *a, **k):
        return _real_dt.date(*a, **k)

    @classmethod
    def today(cls):
        return CLOCK.read().date()

    fromtimestamp = _real_dt.date.fromtimestamp
    fromordinal = _real_dt.date.fromordinal
    fromisoformat = _real_dt.date.fromisoformat
    min = _real_dt.date.min
    max = _real_dt.date.max


def _make_dt_shim():
    m = types.ModuleType('datetime')
    for k in dir(_real_dt):
        if not k.startswith('__'):
            setattr(m, k, getattr(_real_dt, k))
    m.datetime = _ShimDatetime
    m.date = _ShimDate
    return m


DT_SHIM = _make_dt_shim()


class SimRandom(object):
    """Random source that is a per-scenario constant c in [0,1)."""

    def __init__(self):
        self.c = 0.25
        self.calls = 0
        self._fallback = _real_random.Random(0)

    def random(self):
        self.calls += 1
        return self.c

    def randint(self, a, b):
        self.calls += 1
        if a > b:
            raise ValueError('empty range for randrange() (%d, %d, %d)' % (a, b + 1, b + 1 - a))
        return a + int(self.c * (b - a + 1))

    # the other common draws, all as pure functions of the scenario constant
    def uniform(self, a, b):
        self.calls += 1
        return a + (b - a) * self.c

    def randrange(self, start, stop=None, step=1):
        self.calls += 1
        if stop is None:
            start, stop = 0, start
        n = len(range(start, stop, step))
        if n <= 0:
            raise ValueError('empty range for randrange()')
        return start + step * int(self.c * n)

    def choice(self, seq):
        self.calls += 1
        return seq[int(self.c * len(seq))]

    def getrandbits(self, k):
        self.calls += 1
        return int(self.c * (1 << k))

    def __getattr__(self, name):
        return getattr(self._fallback, name)


class SimTime(object):
    """`time` module stand-in for code under test that reads the clock through time.time()."""

    def __init__(self):
        import time as _t
        self._t = _t

    def time(self):
        return (CLOCK.read() - _real_dt.datetime(1970, 1, 1)).total_seconds()

    def monotonic(self):
        return self.time()

    perf_counter = monotonic

    def localtime(self, secs=None):
        return self._t.gmtime(self.time() if secs is None else secs)

    gmtime = localtime

    def __getattr__(self, name):
        return getattr(self._t, name)


RANDOM = SimRandom()
TIME = SimTime()


class Sink(io.TextIOBase):
    """Discarding stderr that counts what was written."""

    def __init__(self):
        self.chars = 0
        self.writes = 0

    def write(self, s):
        self.chars += len(s)
        self.writes += 1
        return len(s)

    def flush(self):
        pass


SINK = Sink()
_installed = False


def install():
    """Patch the seams (idempotent).  Call after importing hotxlfp."""
    global _installed
    import hotxlfp.formulas.dateandtime as dat
    import hotxlfp.formulas.mathtrig as mt
    import dateutil.parser._parser as dp
    dat.datetime = DT_SHIM
    dp.datetime = DT_SHIM
    mt.random = RANDOM
    # wherever else the code under test reads the clock or draws random numbers (a refactoring may move
    # NOW() or RAND() into another module): same seams, found by looking at the module's own source
    import inspect
    import time as _real_time
    for name, mod in list(sys.modules.items()):
        if mod is None or not name.startswith('hotxlfp.'):
            continue
        try:
            src = inspect.getsource(mod)
        except (OSError, TypeError):
            continue
        reads_clock = ('.now(' in src or '.today(' in src or '.utcnow(' in src)
        if getattr(mod, 'datetime', None) is _real_dt and reads_clock:
            mod.datetime = DT_SHIM
        if getattr(mod, 'random', None) is _real_random:
            mod.random = RANDOM
        if getattr(mod, 'time', None) is _real_time and ('time.time(' in src or 'time.monotonic(' in src or 'time.localtime(' in src):
            mod.time = TIME
    if not _installed:
        sys.stderr_real = sys.stderr
    sys.stderr = SINK
    _installed = True


def real_stderr():
    return getattr(sys, 'stderr_real', sys.__stderr__)
