"""Seams for the sources of nondeterminism hotxlfp touches: clock, random, stderr."""
import datetime as _real_dt
import io
import random as _real_random
import sys
import types


class SimClock(object):
    """Simulated wall clock.  `tick` (timedelta) is added after every read."""

    def __init__(self):
        self.now = _real_dt.datetime(2024, 2, 29, 13, 14, 15, 161718)
        self.tick = None
        self.reads = 0

    def set(self, iso):
        self.now = _real_dt.datetime.fromisoformat(iso) if isinstance(iso, str) else iso

    def read(self):
        self.reads += 1
        v = self.now
        if self.tick is not None:
            try:
                self.now = self.now + self.tick
            except OverflowError:
                pass
        return v


CLOCK = SimClock()


class _Meta(type):
    def __instancecheck__(cls, inst):
        return isinstance(inst, cls.__real__)

    def __subclasscheck__(cls, sub):
        return issubclass(sub, cls.__real__)


class _ShimDatetime(_real_dt.datetime, metaclass=_Meta):
    __real__ = _real_dt.datetime

    def __new__(cls, *a, **k):
        return _real_dt.datetime(*a, **k)

    @classmethod
    def now(cls, tz=None):
        v = CLOCK.read()
        return v if tz is None else v.replace(tzinfo=tz)

    @classmethod
    def utcnow(cls):
        return CLOCK.read()

    @classmethod
    def today(cls):
        return CLOCK.read()

    combine = _real_dt.datetime.combine
    fromtimestamp = _real_dt.datetime.fromtimestamp
    fromordinal = _real_dt.datetime.fromordinal
    fromisoformat = _real_dt.datetime.fromisoformat
    strptime = _real_dt.datetime.strptime
    min = _real_dt.datetime.min
    max = _real_dt.datetime.max


class _ShimDate(_real_dt.date, metaclass=_Meta):
    __real__ = _real_dt.date

    def __new__(cls, *a, **k):
        return _real_dt.date(*a, **k)

    @classmethod
    def today(cls):
        return CLOCK.read().date()

    fromtimestamp = _real_dt.date.fromtimestamp
    fromordinal = _real_dt.date.fromordinal
    fromisoformat = _real_dt.date.fromisoformat
    min = _real_dt.date.min
    max = _real_dt.date.max


def _make_dt_shim():
    m = types.ModuleType('datetime')
    for k in dir(_real_dt):
        if not k.startswith('__'):
            setattr(m, k, getattr(_real_dt, k))
    m.datetime = _ShimDatetime
    m.date = _ShimDate
    return m


DT_SHIM = _make_dt_shim()


class SimRandom(object):
    """Random source that is a per-scenario constant c in [0,1)."""

    def __init__(self):
        self.c = 0.25
        self.calls = 0
        self._fallback = _real_random.Random(0)

    def random(self):
        self.calls += 1
        return self.c

    def randint(self, a, b):
        self.calls += 1
        if a > b:
            raise ValueError('empty range for randrange() (%d, %d, %d)' % (a, b + 1, b + 1 - a))
        return a + int(self.c * (b - a + 1))

    def __getattr__(self, name):
        return getattr(self._fallback, name)


RANDOM = SimRandom()


class Sink(io.TextIOBase):
    """Discarding stderr that counts what was written."""

    def __init__(self):
        self.chars = 0
        self.writes = 0

    def write(self, s):
        self.chars += len(s)
        self.writes += 1
        return len(s)

    def flush(self):
        pass


SINK = Sink()
_installed = False


def install():
    """Patch the seams (idempotent).  Call after importing hotxlfp."""
    global _installed
    import hotxlfp.formulas.dateandtime as dat
    import hotxlfp.formulas.mathtrig as mt
    import dateutil.parser._parser as dp
    dat.datetime = DT_SHIM
    dp.datetime = DT_SHIM
    mt.random = RANDOM
    if not _installed:
        sys.stderr_real = sys.stderr
    sys.stderr = SINK
    _installed = True


def real_stderr():
    return getattr(sys, 'stderr_real', sys.__stderr__)
