"""Self-tests of the machinery itself.

  ./check selftest determinism [N]     same run index -> same digest: twice in one process, in fresh
                                       interpreters under other PYTHONHASHSEED / TZ, and at worker counts 1/4/16
  ./check selftest sensitivity [names] apply each mutant to a scratch copy of the repo (outside /repo and
                                       /verif, removed afterwards), confirm the pinned tests still pass there,
                                       and require the listed check to report a violation at quick tier
  ./check selftest benign [names]      apply each behaviour-preserving change (global lock, bounded cache, clock read moved,
                                       ...) to a scratch copy and require every check to stay quiet
  ./check selftest digest PROP N       (internal) print the per-run digests as JSON
"""
import hashlib
import json
import multiprocessing
import os
import shutil
import subprocess
import sys
import tempfile
import time
from collections import Counter
from concurrent.futures import ProcessPoolExecutor

from . import REPO, VERIF, canon, runner, seeds

PROPS = ['C01', 'C02', 'C03', 'C10', 'C20']


def _digest_range(args):
    prop, seed, lo, hi = args
    from . import cleanroom
    cleanroom.ensure()
    mod = runner.load_check(prop)
    cfg = mod.config('quick', seed) if hasattr(mod, 'config') else {}
    out = []
    for stream in mod.STREAMS:
        cap = mod.STREAMS[stream].get('selftest_max')      # sweep-style streams cost seconds per run
        for i in range(lo, hi):
            if cap is not None and i >= cap:
                break
            rng = seeds.rng_for(seed, prop + '/' + stream, i)
            sc = mod.gen(stream, rng, i, cfg)
            sc['_stream'], sc['_run'], sc['_seed'] = stream, i, seed
            st = Counter()
            vs = mod.execute(sc, st)
            body = [dict((k, v) for k, v in sc.items() if not k.startswith('_') or k in ('_schedule_observed', '_switch_locs', '_reach')),
                    vs, sorted(st.items())]
            text = json.dumps(body, sort_keys=True, default=str)
            out.append([stream, i, hashlib.blake2b(text.encode('utf-8', 'surrogatepass'), digest_size=8).hexdigest()])
    return out


def digests(prop, n, seed=0, workers=0, chunk=None):
    if workers <= 1:
        return _digest_range((prop, seed, 0, n))
    chunk = chunk or max(1, n // (workers * 2))
    tasks = [(prop, seed, lo, min(n, lo + chunk)) for lo in range(0, n, chunk)]
    ctx = multiprocessing.get_context('fork')
    out = []
    with ProcessPoolExecutor(max_workers=workers, mp_context=ctx) as ex:
        for r in ex.map(_digest_range, tasks):
            out.extend(r)
    return sorted(out)


def cmd_digest(argv):
    prop, n = argv[0], int(argv[1])
    runner.warm_up()
    sys.__stdout__.write(json.dumps(sorted(digests(prop, n))) + '\n')
    return 0


def cmd_determinism(argv):
    n = int(argv[0]) if argv else 200
    runner.warm_up()
    bad = 0
    t0 = time.time()
    report = {}
    for prop in PROPS:
        a = sorted(digests(prop, n))
        b = sorted(digests(prop, n))
        same_process = a == b
        results = {'same_process_twice': same_process}
        for w in (4, 16):
            c = digests(prop, n, workers=w, chunk=7 if w == 4 else 13)
            results['workers_%d' % w] = (c == a)
        for hs, tz in (('0', 'UTC'), ('1', 'Pacific/Kiritimati'), ('random', 'America/St_Johns'), ('4242', 'UTC')):
            env = dict(os.environ)
            env['PYTHONHASHSEED'] = hs
            env['TZ'] = tz
            env['HXSIM_NO_REEXEC'] = '1'
            p = subprocess.run([sys.executable, os.path.join(VERIF, 'check'), 'selftest', 'digest', prop, str(n)],
                               env=env, stdout=subprocess.PIPE, stderr=subprocess.PIPE, timeout=3600)
            ok = False
            if p.returncode == 0:
                try:
                    ok = json.loads(p.stdout.decode().strip().splitlines()[-1]) == [list(x) for x in a]
                except Exception:
                    ok = False
            results['fresh_interpreter_hashseed_%s_tz_%s' % (hs, tz)] = ok
        report[prop] = results
        for k, v in results.items():
            if not v:
                bad += 1
                print('NONDETERMINISM %s %s' % (prop, k))
        print('%s: %d runs x %d configurations identical=%s' % (prop, len(a), len(results), all(results.values())))
        sys.stdout.flush()
    path = os.path.join(VERIF, 'evidence', 'selftest_determinism.json')
    with open(path, 'w') as fh:
        json.dump({'runs_per_property_and_stream': n, 'wall_s': round(time.time() - t0, 1), 'results': report}, fh, indent=1, sort_keys=True)
    print('determinism self-test: %s (%.0fs)' % ('OK' if not bad else '%d FAILURES' % bad, time.time() - t0))
    return 1 if bad else 0


# ---------------------------------------------------------------- sensitivity
MUTANTS = [
    # name, file, old, new, checks expected to catch it
    ('revert_lexer_clone', 'hotxlfp/grammarparser/parser.py', 'self.yacc.parse(input, lexer=self.lex.clone())', 'self.yacc.parse(input)', ['C03']),
    ('shared_lexer_no_clone', 'hotxlfp/grammarparser/parser.py', 'self.yacc.parse(input, lexer=self.lex.clone())', 'self.yacc.parse(input, lexer=self.lex)', ['C03']),
    ('revert_traceback_clear', 'hotxlfp/parser.py', '            formulaserror.clear_tracebacks()', '            pass', ['C02']),
    ('revert_base_guard', 'hotxlfp/formulas/mathtrig.py', '    if not 0 <= value < 2 ** 53 or not 2 <= base <= 36:\n        return error.NUM\n', '', ['C01']),
    ('revert_result_from_message', 'hotxlfp/parser.py', 'error = str(formulaserror.from_message(result))', 'error = str(result)', ['C01']),
    ('revert_from_message_guard', 'hotxlfp/formulas/error.py', '    try:\n        message = str(message)\n    except Exception:\n        return ERROR\n', '    message = str(message)\n', ['C01']),
    ('revert_range_labels', 'hotxlfp/parser.py', '        start_cell.label = to_label(start_cell.row, start_cell.col)\n        end_cell.label = to_label(end_cell.row, end_cell.col)\n', '', ['C10']),
    ('cache_by_formula_text', 'hotxlfp/parser.py', "        result = None\n        error = None\n        try:",
     "        cache = self.__dict__.setdefault('_cache', {})\n        if expression in cache:\n            return dict(cache[expression])\n        result = None\n        error = None\n        try:", ['C02']),
    ('class_level_bindings', 'hotxlfp/parser.py', "        self.variables = {'TRUE': True, 'FALSE': False, 'NULL': None}\n        self.functions = {}\n",
     "        self.variables = Parser._shared_variables\n        self.functions = Parser._shared_functions\n", ['C03']),
    ('large_sorts_in_place', 'hotxlfp/formulas/statistical.py', "    return sorted(utils.inumbers(arr, try_parse=True, text_is_zero=True))[-n]",
     "    if isinstance(arr, list) and all(isinstance(x, (int, float)) for x in arr):\n        arr.sort()\n        return arr[-n]\n    return sorted(utils.inumbers(arr, try_parse=True, text_is_zero=True))[-n]", ['C02']),
    ('sticky_error_flag', 'hotxlfp/parser.py', "        except Exception as e:\n            if self.debug:", "        except Exception as e:\n            self._failed = isinstance(e, ZeroDivisionError)\n            if self.debug:", ['C02']),
    ('valsetter_truthiness', 'hotxlfp/parser.py', "        label = label.upper()\n        row, col = extract_label(label)\n        result = {'value': None}  # get around 2.7 not having nonlocal\n\n        def valsetter(new_value):\n            if new_value is not None:",
     "        label = label.upper()\n        row, col = extract_label(label)\n        result = {'value': None}  # get around 2.7 not having nonlocal\n\n        def valsetter(new_value):\n            if new_value:", ['C10']),
    ('emit_before_compute', 'hotxlfp/parser.py', "        result['value'] = fn(*args)\n\n        def valsetter(new_value):\n            if new_value is not None:\n                result['value'] = new_value\n\n        self.emit('callFunction', name, args, valsetter)\n        return result['value']",
     "        def valsetter(new_value):\n            if new_value is not None:\n                result['value'] = new_value\n\n        self.emit('callFunction', name, args, valsetter)\n        if result['value'] is None:\n            result['value'] = fn(*args)\n        return result['value']", ['C10']),
    ('absolute_cell_twice', 'hotxlfp/parser.py', "        self.emit('callCellValue', Cell(label, row, col), valsetter)\n", "        self.emit('callCellValue', Cell(label, row, col), valsetter)\n        if row.is_absolute and col.is_absolute and result['value'] is None:\n            self.emit('callCellValue', Cell(label, row, col), valsetter)\n", ['C10']),
    ('emit_iterates_live_list', 'hotxlfp/tinyemitter.py', "listeners = self._e[name][:]", "listeners = self._e[name]", ['C20']),
    ('off_by_identity', 'hotxlfp/tinyemitter.py', "if event.fn != callback and", "if event.fn is not callback and", ['C20']),
    ('off_ignores_once_wrappers', 'hotxlfp/tinyemitter.py', "if event.fn != callback and ((not hasattr(event.fn, '_')) or event.fn._ != callback):", "if event.fn != callback:", ['C20']),
    ('debug_returns_raw_message', 'hotxlfp/parser.py', "            if self.debug:\n                traceback.print_exc()\n            error = str(formulaserror.from_message(e))", "            if self.debug:\n                traceback.print_exc()\n                return {'result': None, 'error': str(e)}\n            error = str(formulaserror.from_message(e))", ['C02', 'C01']),
    ('from_message_default_raw', 'hotxlfp/formulas/error.py', "    return errdict.get(message, ERROR)", "    return errdict.get(message, XLError(message) if message.startswith('#') else ERROR)", ['C01']),
    ('module_scratch_race', 'hotxlfp/formulas/operators.py', "    lval, ltype = value_and_type(lval)\n    rval, rtype = value_and_type(rval)\n    conversions = IMPLICIT_DATA_TYPE_CONVERSIONS[op]",
     "    global _scratch\n    _scratch = (lval, rval)\n    lval, ltype = value_and_type(_scratch[0])\n    rval, rtype = value_and_type(_scratch[1])\n    conversions = IMPLICIT_DATA_TYPE_CONVERSIONS[op]", ['C03']),
    ('busy_flag_without_finally', 'hotxlfp/parser.py', "        result = None\n        error = None\n        try:\n            if expression == '':\n                result = ''\n            else:\n                result = self.parser.parse(expression)",
     "        result = None\n        error = None\n        if self.__dict__.get('_busy'):\n            return {'result': None, 'error': '#ERROR!'}\n        try:\n            if expression == '':\n                result = ''\n            else:\n                self._busy = True\n                result = self.parser.parse(expression)\n                self._busy = False", ['C02', 'C03']),
    ('global_rlock_held_during_callbacks', 'hotxlfp/parser.py', "    def parse(self, expression):\n        result = None",
     "    def parse(self, expression):\n        with _PARSE_LOCK:\n            return self._parse_locked(expression)\n\n    def _parse_locked(self, expression):\n        result = None", ['C01']),
    ('per_parser_rlock_held_during_callbacks', 'hotxlfp/parser.py', "    def parse(self, expression):\n        result = None",
     "    def parse(self, expression):\n        with self._lock:\n            return self._parse_locked(expression)\n\n    def _parse_locked(self, expression):\n        result = None", ['C03']),
    ('per_parser_plain_lock', 'hotxlfp/parser.py', "    def parse(self, expression):\n        result = None",
     "    def parse(self, expression):\n        with self._lock:\n            return self._parse_locked(expression)\n\n    def _parse_locked(self, expression):\n        result = None", ['C03']),
    ('range_rows_only_normalised', 'hotxlfp/parser.py', "        if start_col.index <= end_col.index:", "        if True:", ['C10']),
]

# Changes under which every property still HOLDS: no check may raise an alarm (or a harness error) on them.
BENIGN = [
    ('benign_bounded_lru_cache', 'hotxlfp/helper/cell.py', "def column_label_to_index(label):", "@functools.lru_cache(maxsize=2048)\ndef column_label_to_index(label):"),
    ('benign_clock_read_moved_to_utils', 'hotxlfp/formulas/dateandtime.py', "    return datetime.datetime.now()", "    return utils.current_time()"),
    ('benign_rand_uses_uniform', 'hotxlfp/formulas/mathtrig.py', "    return random.random()", "    return random.uniform(0, 1)"),
    ('benign_base_error_code', 'hotxlfp/formulas/mathtrig.py', "    if not 0 <= value < 2 ** 53 or not 2 <= base <= 36:\n        return error.NUM", "    if not 0 <= value < 2 ** 53 or not 2 <= base <= 36:\n        return error.VALUE"),
    ('benign_off_without_defaultdict_entry', 'hotxlfp/tinyemitter.py', "        if live_events:\n            self._e[name] = live_events\n        else:\n            del self._e[name]",
     "        if live_events:\n            self._e[name] = live_events\n        else:\n            self._e.pop(name, None)"),
    ('benign_strip_leading_equals', 'hotxlfp/parser.py', "            if expression == '':\n                result = ''", "            if expression.startswith('='):\n                expression = expression[1:]\n            if expression == '':\n                result = ''"),
]

EXTRA_EDITS = {
    'global_rlock_held_during_callbacks': [('hotxlfp/parser.py', "import traceback\n", "import traceback\nimport threading\n\n_PARSE_LOCK = threading.RLock()\n")],
    'per_parser_rlock_held_during_callbacks': [('hotxlfp/parser.py', "import traceback\n", "import traceback\nimport threading\n"),
                                               ('hotxlfp/parser.py', "        self.debug = debug\n", "        self.debug = debug\n        self._lock = threading.RLock()\n")],
    'per_parser_plain_lock': [('hotxlfp/parser.py', "import traceback\n", "import traceback\nimport threading\n"),
                              ('hotxlfp/parser.py', "        self.debug = debug\n", "        self.debug = debug\n        self._lock = threading.Lock()\n")],
    'benign_bounded_lru_cache': [('hotxlfp/helper/cell.py', "import re\n", "import re\nimport functools\n")],
    'benign_clock_read_moved_to_utils': [('hotxlfp/formulas/utils.py', "def any_is_error(iterable):", "def current_time():\n    return datetime.datetime.now()\n\n\ndef any_is_error(iterable):")],
    # second edit of a two-site mutant: (file, old, new)
    'cache_by_formula_text': [('hotxlfp/parser.py', "        return {'result': result, 'error': error}", "        cache[expression] = {'result': result, 'error': error}\n        return {'result': result, 'error': error}")],
    'class_level_bindings': [('hotxlfp/parser.py', "class Parser(Emitter):\n", "class Parser(Emitter):\n    _shared_variables = {'TRUE': True, 'FALSE': False, 'NULL': None}\n    _shared_functions = {}\n")],
    'sticky_error_flag': [('hotxlfp/parser.py', "        result = None\n        error = None\n        try:", "        result = None\n        error = None\n        if self.__dict__.pop('_failed', False):\n            return {'result': None, 'error': '#DIV/0!'}\n        try:")],
    'busy_flag_without_finally': [('hotxlfp/parser.py', "        except Exception as e:\n            if self.debug:", "        except Exception as e:\n            self._busy = False\n            if self.debug:")],
}


def _apply(root, rel, old, new):
    p = os.path.join(root, rel)
    with open(p) as fh:
        s = fh.read()
    if s.count(old) != 1:
        raise runner.HarnessError('mutant anchor not found exactly once in %s: %r' % (rel, old[:60]))
    with open(p, 'w') as fh:
        fh.write(s.replace(old, new))


def cmd_sensitivity(argv):
    want = set(argv)
    scale = os.environ.get('SELFTEST_SCALE', '1')
    base = tempfile.mkdtemp(prefix='hx-mut-')
    results = []
    t0 = time.time()
    try:
        for name, rel, old, new, expected in MUTANTS:
            if rel is None or (want and name not in want):
                continue
            root = os.path.join(base, name)
            shutil.copytree(REPO, root, ignore=shutil.ignore_patterns('.git', '__pycache__', '*.pyc'))
            _apply(root, rel, old, new)
            for (r2, o2, n2) in EXTRA_EDITS.get(name, []):
                _apply(root, r2, o2, n2)
            t = subprocess.run([sys.executable, '-m', 'pytest', '-q', '-x', '-p', 'no:cacheprovider', '--timeout=900'], cwd=root,
                               stdout=subprocess.PIPE, stderr=subprocess.STDOUT, timeout=1800, env=dict(os.environ, PYTHONPATH=root))
            tests_pass = t.returncode == 0
            row = {'mutant': name, 'tests_still_pass': tests_pass, 'checks': {}}
            evdir = os.path.join(base, name + '-evidence')
            os.makedirs(evdir)
            for prop in expected:
                env = dict(os.environ, HXSIM_REPO=root, HXSIM_EVIDENCE_DIR=evdir, HXSIM_REPLAY_DIR=evdir, VERIF_SCALE=scale)
                t1 = time.time()
                p = subprocess.run([os.path.join(VERIF, 'check'), prop, 'quick'], env=env, stdout=subprocess.PIPE,
                                   stderr=subprocess.PIPE, timeout=3600)
                out = p.stdout.decode(errors='replace')
                vio = [l for l in out.splitlines() if l.startswith('VIOLATION')]
                inv = [l.strip() for l in out.splitlines() if l.strip().startswith('invariant=')]
                replay_ok = None
                if vio:
                    path = vio[0].split('replay=')[1].strip()
                    q = subprocess.run([os.path.join(VERIF, 'check'), prop, '--replay', path], env=env,
                                       stdout=subprocess.PIPE, stderr=subprocess.PIPE, timeout=600)
                    replay_ok = (q.returncode == 1)
                row['checks'][prop] = {'exit': p.returncode, 'violations': len(vio), 'first': inv[:1],
                                       'replay_reproduces': replay_ok, 'wall_s': round(time.time() - t1, 1)}
            caught = any(c['exit'] == 1 and c['violations'] for c in row['checks'].values())
            row['caught'] = caught
            results.append(row)
            print('%-32s tests_pass=%s caught=%s %s' % (name, tests_pass, caught,
                  ' '.join('%s:exit%d/%s/replay=%s/%.0fs' % (k, v['exit'], (v['first'] or ['-'])[0].replace('invariant=', ''), v['replay_reproduces'], v['wall_s'])
                           for k, v in row['checks'].items())))
            sys.stdout.flush()
            shutil.rmtree(root, ignore_errors=True)
            shutil.rmtree(evdir, ignore_errors=True)
    finally:
        shutil.rmtree(base, ignore_errors=True)
    if not want:
        with open(os.path.join(VERIF, 'evidence', 'selftest_sensitivity.json'), 'w') as fh:
            json.dump({'wall_s': round(time.time() - t0, 1), 'results': results}, fh, indent=1, sort_keys=True)
    missed = [r['mutant'] for r in results if not r['caught']]
    print('sensitivity self-test: %d/%d mutants caught%s' % (len(results) - len(missed), len(results),
                                                            '' if not missed else '; MISSED: ' + ', '.join(missed)))
    return 1 if missed else 0


def cmd_benign(argv):
    """Apply each behaviour-preserving change to a scratch copy; every check must stay quiet (exit 0)."""
    want = set(argv)
    base = tempfile.mkdtemp(prefix='hx-benign-')
    results = []
    t0 = time.time()
    try:
        for name, rel, old, new in BENIGN:
            if want and name not in want:
                continue
            root = os.path.join(base, name)
            shutil.copytree(REPO, root, ignore=shutil.ignore_patterns('.git', '__pycache__', '*.pyc'))
            _apply(root, rel, old, new)
            for (r2, o2, n2) in EXTRA_EDITS.get(name, []):
                _apply(root, r2, o2, n2)
            t = subprocess.run([sys.executable, '-m', 'pytest', '-q', '-x', '-p', 'no:cacheprovider', '--timeout=900'], cwd=root,
                               stdout=subprocess.PIPE, stderr=subprocess.STDOUT, timeout=1800, env=dict(os.environ, PYTHONPATH=root))
            row = {'change': name, 'tests_still_pass': t.returncode == 0, 'checks': {}}
            evdir = os.path.join(base, name + '-evidence')
            os.makedirs(evdir)
            for prop in PROPS:
                env = dict(os.environ, HXSIM_REPO=root, HXSIM_EVIDENCE_DIR=evdir, HXSIM_REPLAY_DIR=evdir)
                t1 = time.time()
                p = subprocess.run([os.path.join(VERIF, 'check'), prop, 'quick'], env=env, stdout=subprocess.PIPE,
                                   stderr=subprocess.PIPE, timeout=3600)
                out = p.stdout.decode(errors='replace')
                row['checks'][prop] = {'exit': p.returncode, 'wall_s': round(time.time() - t1, 1),
                                       'lines': [l for l in out.splitlines() if l.startswith(('VIOLATION', 'HARNESS', '  invariant'))][:4]}
            row['quiet'] = all(c['exit'] == 0 for c in row['checks'].values())
            results.append(row)
            print('%-40s tests_pass=%s quiet=%s %s' % (name, row['tests_still_pass'], row['quiet'],
                  ' '.join('%s:%d' % (k, v['exit']) for k, v in row['checks'].items())))
            for k, v in row['checks'].items():
                for l in v['lines']:
                    print('    %s %s' % (k, l[:300]))
            sys.stdout.flush()
            shutil.rmtree(root, ignore_errors=True)
            shutil.rmtree(evdir, ignore_errors=True)
    finally:
        shutil.rmtree(base, ignore_errors=True)
    if not want:
        with open(os.path.join(VERIF, 'evidence', 'selftest_benign.json'), 'w') as fh:
            json.dump({'wall_s': round(time.time() - t0, 1), 'results': results}, fh, indent=1, sort_keys=True)
    loud = [r['change'] for r in results if not r['quiet']]
    print('benign self-test: %d/%d behaviour-preserving changes leave every check quiet%s' % (
        len(results) - len(loud), len(results), '' if not loud else '; ALARMS ON: ' + ', '.join(loud)))
    return 1 if loud else 0


def main(argv):
    if not argv:
        print(__doc__)
        return 2
    if argv[0] == 'digest':
        return cmd_digest(argv[1:])
    if argv[0] == 'determinism':
        return cmd_determinism(argv[1:])
    if argv[0] == 'sensitivity':
        return cmd_sensitivity(argv[1:])
    if argv[0] == 'benign':
        return cmd_benign(argv[1:])
    print(__doc__)
    return 2
