"""Canonical, hash-seed independent rendering of outcomes and host values.

Never uses == or repr of the values themselves (FACT(20000) exceeds the
int->str digit limit; nan != nan; XLError singletons compare by identity).
"""
import datetime
import decimal
import fractions
import hashlib
import json
import math

MAX_DEPTH = 8
MAX_ITEMS = 400


def canon(v, depth=0):
    t = type(v)
    if v is None:
        return ['none']
    if t is bool:
        return ['bool', bool(v)]
    if t is int:
        return ['int', hex(v)]
    if t is float:
        if v != v:
            return ['float', 'nan']
        return ['float', v.hex()]
    if t is complex:
        return ['complex', canon(v.real)[1], canon(v.imag)[1]]
    if t is str:
        return ['str', v.encode('utf-8', 'surrogatepass').hex() if not v.isascii() or not v.isprintable() else v, 0 if v.isascii() and v.isprintable() else 1]
    if t is bytes:
        return ['bytes', v.hex()]
    if t is datetime.datetime:
        return ['datetime', v.isoformat()]
    if t is datetime.date:
        return ['date', v.isoformat()]
    if t is datetime.timedelta:
        return ['timedelta', v.days, v.seconds, v.microseconds]
    if t is decimal.Decimal:
        return ['decimal', str(v)]
    if t is fractions.Fraction:
        return ['fraction', hex(v.numerator), hex(v.denominator)]
    if isinstance(v, BaseException):
        # XLError and friends: class name + rendered args (guarded)
        try:
            msg = str(v)
        except Exception:
            msg = '<unrenderable>'
        return ['exc', t.__name__, msg[:200]]
    if t in (list, tuple):
        if depth >= MAX_DEPTH:
            return [t.__name__, '...']
        items = [canon(x, depth + 1) for x in v[:MAX_ITEMS]]
        if len(v) > MAX_ITEMS:
            items.append(['more', len(v) - MAX_ITEMS])
        return [t.__name__, items]
    if t is dict:
        if depth >= MAX_DEPTH:
            return ['dict', '...']
        items = []
        for k in list(v.keys())[:MAX_ITEMS]:
            items.append([canon(k, depth + 1), canon(v[k], depth + 1)])
        return ['dict', items]
    if t is range:
        return ['range', v.start, v.stop, v.step]
    return ['obj', t.__module__ + '.' + t.__qualname__]


def canon_outcome(ret):
    """Canonical form of what Parser.parse returned (expected: dict result/error)."""
    if type(ret) is dict:
        keys = sorted(str(k) for k in ret.keys())
        return ['record', keys, canon(ret.get('result')), canon(ret.get('error'))]
    return ['nonrecord', canon(ret)]


def canon_raised(exc):
    return ['raised', type(exc).__name__]


def dumps(c):
    return json.dumps(c, sort_keys=False, ensure_ascii=True, separators=(',', ':'))


def digest(c):
    return hashlib.blake2b(dumps(c).encode('ascii'), digest_size=8).hexdigest()


def digest_int(c):
    return int.from_bytes(hashlib.blake2b(dumps(c).encode('ascii'), digest_size=8).digest(), 'big')
