"""Clean-room evaluation: run a function in a process that has never evaluated anything.

A *zygote* is forked while the current process is still pristine (worker start, or the start of a
replay); it sits on a pipe and, for every request, forks a child that runs the request and exits.
State kept anywhere in the process (module-level caches, memo tables, class attributes, interned
singletons) therefore cannot leak from one request to the next or from the caller into a request:
this is the strongest executable reading of "the same on a fresh parser".
"""
import importlib
import os
import pickle
import select
import struct
import sys

_state = {'pid': None, 'req_w': None, 'res_r': None, 'owner': None}


class CleanroomError(Exception):
    pass


def _write_msg(fd, obj):
    data = pickle.dumps(obj, protocol=pickle.HIGHEST_PROTOCOL)
    os.write(fd, struct.pack('<I', len(data)))
    view = memoryview(data)
    while view:
        n = os.write(fd, view[:65536])
        view = view[n:]


def _read_exact(fd, n, timeout=None):
    chunks = []
    while n > 0:
        if timeout is not None:
            r, _, _ = select.select([fd], [], [], timeout)
            if not r:
                raise CleanroomError('timeout')
        b = os.read(fd, min(n, 65536))
        if not b:
            raise EOFError()
        chunks.append(b)
        n -= len(b)
    return b''.join(chunks)


def _read_msg(fd, timeout=None):
    (n,) = struct.unpack('<I', _read_exact(fd, 4, timeout))
    return pickle.loads(_read_exact(fd, n, timeout))


def _fork_retry():
    """fork(), patient with a machine that is momentarily out of processes or memory."""
    import time
    for attempt in range(200):
        try:
            return os.fork()
        except OSError:
            time.sleep(0.05 * (attempt + 1))
    return os.fork()


def _zygote_loop(req_r, res_w):
    while True:
        try:
            req = _read_msg(req_r)
        except EOFError:
            os._exit(0)
        pid = _fork_retry()
        if pid == 0:
            try:
                modname, fname, args = req
                fn = getattr(importlib.import_module(modname), fname)
                out = ('ok', fn(*args))
            except BaseException as e:  # reported to the caller, who decides
                out = ('exc', '%s: %s' % (type(e).__name__, e))
            try:
                _write_msg(res_w, out)
            finally:
                os._exit(0)
        os.waitpid(pid, 0)


def ensure():
    """Fork the zygote now if this process does not own one yet.  Call while pristine."""
    if _state['owner'] == os.getpid() and _state['pid'] is not None:
        return
    req_r, req_w = os.pipe()
    res_r, res_w = os.pipe()
    sys.stdout.flush()
    pid = os.fork()
    if pid == 0:
        os.close(req_w)
        os.close(res_r)
        try:
            _zygote_loop(req_r, res_w)
        finally:
            os._exit(0)
    os.close(req_r)
    os.close(res_w)
    _state.update(pid=pid, req_w=req_w, res_r=res_r, owner=os.getpid())


def call(modname, fname, *args, **kw):
    timeout = kw.get('timeout', 120)
    ensure()
    _write_msg(_state['req_w'], (modname, fname, args))
    try:
        status, value = _read_msg(_state['res_r'], timeout)
    except (EOFError, CleanroomError) as e:
        raise CleanroomError('clean-room process failed: %r' % (e,))
    if status != 'ok':
        raise CleanroomError('clean-room request raised %s' % value)
    return value
