"""hxsim - deterministic simulation harness for aidhound/hotxlfp.

Importing this package puts the repository under test at the front of sys.path
(HXSIM_REPO, default /repo) so that every engine runs the working tree's code.
"""
import os
import sys

REPO = os.path.realpath(os.environ.get('HXSIM_REPO', '/repo'))
VERIF = os.path.dirname(os.path.dirname(os.path.abspath(__file__)))

if sys.path[0] != REPO:
    sys.path.insert(0, REPO)
