"""Tagged JSON <-> Python values, the value pool, and formula-text spellings."""
import datetime
import decimal
import fractions

ERR_CODES = ['#ERROR!', '#DIV/0!', '#NAME?', '#N/A', '#NULL!', '#NUM!', '#REF!', '#VALUE!', '#GETTING_DATA']


class Opaque(object):
    """An arbitrary host object the library knows nothing about."""
    __slots__ = ()

    def __repr__(self):          # no id() in the rendering: outcomes must not depend on addresses
        return '<opaque host object>'


def enc(v):
    """Python value -> tagged JSON (only for the types in the pool)."""
    from hotxlfp.formulas import error as E
    t = type(v)
    if v is None:
        return {'t': 'none'}
    if t is bool:
        return {'t': 'bool', 'v': v}
    if t is int:
        return {'t': 'int', 'v': hex(v)}
    if t is float:
        return {'t': 'float', 'v': 'nan' if v != v else v.hex()}
    if t is complex:
        return {'t': 'complex', 'v': [v.real.hex(), v.imag.hex()]}
    if t is str:
        return {'t': 'str', 'v': v.encode('utf-8', 'surrogatepass').hex()}
    if t is bytes:
        return {'t': 'bytes', 'v': v.hex()}
    if t is datetime.datetime:
        return {'t': 'datetime', 'v': v.isoformat()}
    if isinstance(v, E.XLError):
        code = str(v)
        if code in ERR_CODES and v is E.from_message(code):
            return {'t': 'err', 'v': code}
        return {'t': 'xlerr', 'v': code}
    if t is list:
        return {'t': 'list', 'v': [enc(x) for x in v]}
    if t is tuple:
        return {'t': 'tuple', 'v': [enc(x) for x in v]}
    if t is dict:
        return {'t': 'dict', 'v': [[enc(k), enc(x)] for k, x in v.items()]}
    if t is decimal.Decimal:
        return {'t': 'decimal', 'v': str(v)}
    if t is fractions.Fraction:
        return {'t': 'fraction', 'v': [hex(v.numerator), hex(v.denominator)]}
    return {'t': 'object'}


def dec(j):
    from hotxlfp.formulas import error as E
    t = j['t']
    if t == 'none':
        return None
    if t == 'bool':
        return bool(j['v'])
    if t == 'int':
        return int(j['v'], 16)
    if t == 'float':
        return float('nan') if j['v'] == 'nan' else float.fromhex(j['v'])
    if t == 'complex':
        return complex(float.fromhex(j['v'][0]), float.fromhex(j['v'][1]))
    if t == 'str':
        return bytes.fromhex(j['v']).decode('utf-8', 'surrogatepass')
    if t == 'bytes':
        return bytes.fromhex(j['v'])
    if t == 'datetime':
        return datetime.datetime.fromisoformat(j['v'])
    if t == 'err':
        return E.from_message(j['v'])
    if t == 'xlerr':
        return E.XLError(j['v'])
    if t == 'xlerrv':
        return E.XLError(*[dec(x) for x in j['v']])
    if t == 'list':
        return [dec(x) for x in j['v']]
    if t == 'tuple':
        return tuple(dec(x) for x in j['v'])
    if t == 'dict':
        return dict((dec(k), dec(x)) for k, x in j['v'])
    if t == 'decimal':
        return decimal.Decimal(j['v'])
    if t == 'fraction':
        return fractions.Fraction(int(j['v'][0], 16), int(j['v'][1], 16))
    if t == 'object':
        return Opaque()
    if t == 'lazy':
        return make_lazy(j['v'])
    if t == 'deeplist':
        v = [1]
        for _ in range(j['v']):
            v = [v]
        return v
    raise ValueError('unknown tag %r' % t)


def make_lazy(kind):
    """Lazy iterables a host may hand over (a generator from a custom function, map/filter/zip objects).
    They are stateful, so they are only used where every value is decoded fresh (C01)."""
    if kind == 'gen_ok':
        return (x for x in [1, 2, 3])
    if kind == 'gen_raises_midway':
        def g():
            yield 1
            yield 2
            raise ValueError('iteration failed')
        return g()
    if kind == 'gen_raises_xl':
        from hotxlfp.formulas import error as E

        def g2():
            yield 1
            raise E.NUM
        return g2()
    if kind == 'map_div0':
        return map(lambda n: 1 / n, [1, 2, 0, 4])
    if kind == 'filter':
        return filter(None, [0, 1, 2])
    if kind == 'zip':
        return zip([1, 2], 'ab')
    if kind == 'range':
        return range(3)
    if kind == 'dictview':
        return {'a': 1}.keys()
    if kind == 'set':
        return set([7])
    if kind == 'frozenset':
        return frozenset([7])
    if kind == 'bytearray':
        return bytearray(b'ab')
    if kind == 'long_gen':
        return (x for x in range(5000))
    raise ValueError(kind)


LAZY_KINDS = ['gen_ok', 'gen_raises_midway', 'gen_raises_xl', 'map_div0', 'filter', 'zip', 'range', 'dictview', 'set',
              'frozenset', 'bytearray', 'long_gen']
POOL_LAZY = [{'t': 'lazy', 'v': k} for k in LAZY_KINDS]


def S(s):
    return {'t': 'str', 'v': s.encode('utf-8', 'surrogatepass').hex()}


def I(i):
    return {'t': 'int', 'v': hex(i)}


def F(f):
    return {'t': 'float', 'v': 'nan' if f != f else float(f).hex()}


def L(*xs):
    return {'t': 'list', 'v': list(xs)}


NONE = {'t': 'none'}
TRUE = {'t': 'bool', 'v': True}
FALSE = {'t': 'bool', 'v': False}


def ERR(code):
    return {'t': 'err', 'v': code}


# --- the pool: every Python type the library distinguishes, small magnitudes ---
POOL_SCALARS = [
    NONE, TRUE, FALSE, I(0), I(1), I(-1), I(2), I(7), I(255), I(1000),
    F(0.5), F(-2.5), F(3.5), F(1e-7), F(float('nan')), F(float('inf')), F(float('-inf')),
    S(''), S('abc'), S('12'), S('-3.5'), S('2020-02-29'), S('a*'), S('é漢'), S('March 5'),
    S('10:30 PM'), S('1+2i'), S('FF'), S('y'),
    {'t': 'datetime', 'v': '2020-02-29T00:00:00'}, {'t': 'datetime', 'v': '1900-03-01T12:00:00'},
] + [ERR(c) for c in ERR_CODES]

POOL_CONTAINERS = [
    L(I(10), I(20), I(30), NONE), L(NONE), L(NONE, NONE), L(L(I(1), NONE), L(NONE, NONE)),
    L(I(1), I(2), I(3)), L(L(I(1), I(2)), L(I(3), I(4))), L(S('a'), S('b')), L(),
    L(NONE, I(1), S('x')), L(I(3), I(1), I(2)), L(F(2.5), I(-1), TRUE, S('7')),
    L(L(I(5), S('b'), NONE), L(I(2), S('a'), F(0.5))),
    {'t': 'tuple', 'v': [I(1), I(2)]},
]

POOL_HOSTILE = [
    {'t': 'complex', 'v': [2.0.hex(), 3.0.hex()]}, {'t': 'decimal', 'v': '1.5'},
    {'t': 'fraction', 'v': ['0x1', '0x3']}, {'t': 'bytes', 'v': b'bytes'.hex()},
    {'t': 'dict', 'v': [[S('k'), I(1)]]}, {'t': 'object'}, {'t': 'xlerr', 'v': '#FOO!'},
    {'t': 'xlerr', 'v': ''}, L(ERR('#N/A'), I(1)), L(L(L(I(1)))),
    {'t': 'xlerrv', 'v': [L(S('#N/A'))]}, {'t': 'xlerrv', 'v': [{'t': 'dict', 'v': [[S('k'), I(1)]]}]},
    {'t': 'xlerrv', 'v': []}, {'t': 'xlerrv', 'v': [S('#N/A'), S('detail')]}, {'t': 'xlerrv', 'v': [NONE]},
    {'t': 'deeplist', 'v': 1500}, {'t': 'deeplist', 'v': 60},
]

POOL = POOL_SCALARS + POOL_CONTAINERS + POOL_HOSTILE

# --- spellings of pool-like values as formula text ---------------------------
TEXT_POOL = [
    '', 'TRUE', 'FALSE', '0', '1', '-1', '2', '7', '255', '1000', '0.5', '-2.5', '3.5', '.5', '50%',
    '2^3', '1E2', '""', '"abc"', '"12"', '"-3.5"', '"2020-02-29"', '"a*"', '"é漢"',
    '"March 5"', '"10:30 PM"', '"1+2i"', '"FF"', '"y"', "'sq'",
    '#ERROR!', '#DIV/0!', '#NAME?', '#N/A', '#NULL!', '#NUM!', '#REF!', '#VALUE!', '#GETTING_DATA',
    '{1,2,3}', '{1,2;3,4}', '{"a","b"}', '{3\\1\\2}', '{1,,2}', '{;;}',
    'DATE(2020,2,29)', 'NULL', 'A1', 'B2:A1', '1/0', '(1+2)', '-"3"', 'PI()', 'NOW()', 'RAND()',
]


def scalar_count(j):
    """Number of scalar elements in a tagged value (for the step budget)."""
    t = j['t']
    if t in ('list', 'tuple'):
        return 1 + sum(scalar_count(x) for x in j['v'])
    if t == 'dict':
        return 1 + len(j['v'])
    if t in ('str', 'bytes'):
        return 1 + len(j['v']) // 16
    if t == 'deeplist':
        return 2 * j['v']
    return 1
