"""Seeded baton-passing scheduler for real threads.

Exactly one thread holds the baton.  The line tracer of the running thread calls back at the end
of its segment; the scheduler decides who runs next and for how many steps.  The execution is a
pure function of the decision list [[thread, steps], ...]; any list is a legal schedule (segments of
finished threads are skipped; when the list is exhausted the remaining threads run to completion
in id order), which is what makes schedules shrinkable.
"""
import threading
from collections import Counter

from .stepclock import StepClock

INF = 1 << 60
WATCHDOG_S = 120


class HarnessStuck(Exception):
    pass


class Baton(object):
    def __init__(self, n, schedule=None, rng=None, mean=30, opcode=False, reach=False):
        self.n = n
        self.sems = [threading.Semaphore(0) for _ in range(n)]
        self.main = threading.Semaphore(0)
        self.alive = [True] * n
        self.clocks = [StepClock(reach=reach, opcode=opcode) for _ in range(n)]
        self.seg_start = [0] * n
        self.pending_len = [INF] * n
        self.log = []
        self.replay = None if schedule is None else [list(x) for x in schedule]
        self.rpos = 0
        self.rng = rng
        self.mean = mean
        self.switches = 0
        self.switch_locs = Counter()
        self.stuck = None
        self.errors = []
        for tid, c in enumerate(self.clocks):
            c.hook = self._make_hook(tid)

    # -- decisions -----------------------------------------------------------
    def _next(self):
        alive = [t for t in range(self.n) if self.alive[t]]
        if not alive:
            return None, 0
        if self.replay is not None:
            while self.rpos < len(self.replay):
                t, k = self.replay[self.rpos]
                self.rpos += 1
                if 0 <= t < self.n and self.alive[t] and k > 0:
                    return t, k
            return alive[0], INF
        t = alive[self.rng.randrange(len(alive))] if len(alive) > 1 else alive[0]
        k = int(self.rng.expovariate(1.0 / self.mean)) + 1
        return t, k

    def _make_hook(self, tid):
        def hook(clock, frame):
            self.log.append([tid, clock.steps - self.seg_start[tid]])
            nxt, k = self._next()
            if nxt == tid:
                self.seg_start[tid] = clock.steps
                return clock.steps + k
            self.switches += 1
            code = frame.f_code
            self.switch_locs[(clock.rel(code.co_filename), frame.f_lineno or 0)] += 1
            self.pending_len[nxt] = k
            self.sems[nxt].release()
            self._wait(tid)
            self.seg_start[tid] = clock.steps
            return clock.steps + self.pending_len[tid]
        return hook

    def _wait(self, tid):
        if not self.sems[tid].acquire(timeout=WATCHDOG_S):
            self.stuck = 'thread %d never got the baton back' % tid
            self.main.release()
            raise HarnessStuck(self.stuck)

    # -- thread life cycle ---------------------------------------------------------
    def run(self, bodies):
        """bodies[tid](clock) is run in thread tid.  Returns when all are done."""
        threads = []
        for tid in range(self.n):
            th = threading.Thread(target=self._body, args=(tid, bodies[tid]), name='sim-%d' % tid, daemon=True)
            threads.append(th)
            th.start()
        nxt, k = self._next()
        self.pending_len[nxt] = k
        self.sems[nxt].release()
        if not self.main.acquire(timeout=WATCHDOG_S * 4):
            self.stuck = self.stuck or 'main never got control back'
        if self.stuck:
            raise HarnessStuck(self.stuck)
        for th in threads:
            th.join(WATCHDOG_S)
            if th.is_alive():
                raise HarnessStuck('thread did not end')

    def _body(self, tid, body):
        clock = self.clocks[tid]
        try:
            self._wait(tid)
            self.seg_start[tid] = clock.steps
            clock.hook_at = clock.steps + self.pending_len[tid]
            clock._recompute()
            body(clock)
        except HarnessStuck:
            return
        except BaseException as e:  # harness-level failure inside a simulated thread
            self.errors.append('%s: %s' % (type(e).__name__, e))
        finally:
            clock.disarm()
        self.log.append([tid, clock.steps - self.seg_start[tid]])
        self.alive[tid] = False
        nxt, k = self._next()
        if nxt is None:
            self.main.release()
        else:
            self.pending_len[nxt] = k
            self.sems[nxt].release()

    def compact_log(self):
        """Decision list with zero-length segments dropped and same-thread neighbours merged."""
        out = []
        for t, k in self.log:
            if k <= 0:
                continue
            if out and out[-1][0] == t:
                out[-1][1] += k
            else:
                out.append([t, k])
        return out
