"""Seeded baton-passing scheduler for real threads.

Exactly one thread holds the baton.  The line tracer of the running thread calls back at the end
of its segment; the scheduler decides who runs next and for how many steps.  The execution is a
pure function of the decision list [[thread, steps], ...]; any list is a legal schedule (segments of
finished threads are skipped; when the list is exhausted the remaining threads run to completion
in id order), which is what makes schedules shrinkable.
"""
import threading
from collections import Counter

from .stepclock import StepClock

INF = 1 << 60
WATCHDOG_S = 120
_tls = threading.local()


class SimDeadlock(BaseException):
    """Every simulated thread waits for a lock another one holds."""


class SimLock(object):
    """Replacement for threading.Lock / RLock objects owned by the code under test.  Under the baton
    scheduler a contended acquire parks the thread (it stops being runnable) and hands the baton on; the
    release makes the waiters runnable again.  Outside a simulated thread it behaves like the real thing."""

    def __init__(self, reentrant=False):
        self._real = threading.RLock() if reentrant else threading.Lock()
        self.reentrant = reentrant
        self.owner = None
        self.count = 0

    def acquire(self, blocking=True, timeout=-1):
        baton = getattr(_tls, 'baton', None)
        if baton is None:
            me = threading.get_ident()
            if not self.reentrant and blocking and self._real.locked() and getattr(self, '_ident', None) == me:
                # a real Lock would hang here forever: the thread waits for itself (nested evaluation)
                raise SimDeadlock('thread re-acquires a non-reentrant lock it already holds')
            ok = self._real.acquire(blocking, timeout)
            if ok:
                self._ident = me
            return ok
        tid = _tls.tid
        if not self.reentrant and blocking and self.owner == tid:
            raise SimDeadlock('thread re-acquires a non-reentrant lock it already holds')
        while True:
            if self.owner is None:
                self.owner, self.count = tid, 1
                return True
            if self.reentrant and self.owner == tid:
                self.count += 1
                return True
            if not blocking:
                return False
            baton.block(tid, self)

    def release(self):
        baton = getattr(_tls, 'baton', None)
        if baton is None:
            return self._real.release()
        if self.owner != _tls.tid and self.reentrant:
            raise RuntimeError('cannot release un-acquired lock')
        self.count -= 1
        if self.count <= 0:
            self.owner, self.count = None, 0
            baton.unblock(self)

    def locked(self):
        return self.owner is not None or (getattr(_tls, 'baton', None) is None and self._real.locked())

    __enter__ = acquire

    def __exit__(self, *a):
        self.release()


def install_lock_seam():
    """Give the code under test (hotxlfp, ply) simulated locks: its modules' `threading` name becomes a shim whose
    Lock/RLock build SimLocks, and lock objects that already exist at module or class level are swapped."""
    import sys
    import types
    import _thread
    shim = types.ModuleType('threading')
    for k in dir(threading):
        if not k.startswith('__'):
            setattr(shim, k, getattr(threading, k))
    shim.Lock = lambda: SimLock(False)
    shim.RLock = lambda: SimLock(True)
    real_types = (type(threading.Lock()), type(threading.RLock()))
    n = 0
    for name, mod in list(sys.modules.items()):
        if mod is None or not (name == 'hotxlfp' or name.startswith('hotxlfp.') or name == 'ply' or name.startswith('ply.')):
            continue
        for attr, val in list(vars(mod).items()):
            if val is threading:
                setattr(mod, attr, shim)
                n += 1
            elif val is threading.Lock or val is _thread.allocate_lock:
                setattr(mod, attr, shim.Lock)
                n += 1
            elif val is threading.RLock:
                setattr(mod, attr, shim.RLock)
                n += 1
            elif isinstance(val, real_types):
                setattr(mod, attr, SimLock(isinstance(val, real_types[1])))
                n += 1
            elif isinstance(val, type) and getattr(val, '__module__', None) == name:
                for a2, v2 in list(vars(val).items()):
                    if isinstance(v2, real_types):
                        setattr(val, a2, SimLock(isinstance(v2, real_types[1])))
                        n += 1
            else:
                n += _swap_inside(val, real_types, 0, set())
    return n


def _own(obj):
    m = getattr(type(obj), '__module__', '') or ''
    return m == 'hotxlfp' or m.startswith('hotxlfp.') or m == 'ply' or m.startswith('ply.')


def _swap_inside(obj, real_types, depth, seen):
    """Locks held as attributes of module-level objects of the code under test (e.g. a lazy-initialisation holder
    created at import time), up to three levels deep."""
    if depth > 3 or id(obj) in seen:
        return 0
    seen.add(id(obj))
    n = 0
    if isinstance(obj, dict):
        for k, v in list(obj.items()):
            if isinstance(v, real_types):
                obj[k] = SimLock(isinstance(v, real_types[1]))
                n += 1
            else:
                n += _swap_inside(v, real_types, depth + 1, seen)
        return n
    if isinstance(obj, (list, tuple, set, frozenset)):
        for v in list(obj):
            n += _swap_inside(v, real_types, depth + 1, seen)
        return n
    if not _own(obj):
        return 0
    names = list(getattr(obj, '__dict__', {}).keys())
    for klass in type(obj).__mro__:
        names.extend(getattr(klass, '__slots__', ()) if isinstance(getattr(klass, '__slots__', ()), (tuple, list)) else [])
    for a in names:
        try:
            v = getattr(obj, a)
        except Exception:
            continue
        if isinstance(v, real_types):
            try:
                setattr(obj, a, SimLock(isinstance(v, real_types[1])))
                n += 1
            except Exception:
                pass
        else:
            n += _swap_inside(v, real_types, depth + 1, seen)
    return n


class HarnessStuck(Exception):
    pass


class Baton(object):
    def __init__(self, n, schedule=None, rng=None, mean=30, opcode=False, reach=False):
        self.n = n
        self.sems = [threading.Semaphore(0) for _ in range(n)]
        self.main = threading.Semaphore(0)
        self.alive = [True] * n
        self.clocks = [StepClock(reach=reach, opcode=opcode) for _ in range(n)]
        self.seg_start = [0] * n
        self.pending_len = [INF] * n
        self.log = []
        self.replay = None if schedule is None else [list(x) for x in schedule]
        self.rpos = 0
        self.rng = rng
        self.mean = mean
        self.switches = 0
        self.switch_locs = Counter()
        self.stuck = None
        self.errors = []
        self.blocked = {}       # tid -> SimLock it waits for
        self.deadlock = False
        self.lock_blocks = 0
        for tid, c in enumerate(self.clocks):
            c.hook = self._make_hook(tid)

    # -- decisions -----------------------------------------------------------
    def block(self, tid, lock):
        """Thread tid (the baton holder) found `lock` taken: park it and let somebody runnable go on."""
        clock = self.clocks[tid]
        self.log.append([tid, clock.steps - self.seg_start[tid]])
        self.blocked[tid] = lock
        self.lock_blocks += 1
        nxt, k = self._next()
        if nxt is None:
            # nobody can run: every live thread waits for a lock
            self.deadlock = True
            del self.blocked[tid]
            for t in list(self.blocked):
                del self.blocked[t]
            raise SimDeadlock('all simulated threads are blocked on locks')
        self.switches += 1
        self.pending_len[nxt] = k
        self.sems[nxt].release()
        self._wait(tid)
        if self.deadlock:
            raise SimDeadlock('all simulated threads are blocked on locks')
        self.seg_start[tid] = clock.steps
        clock.hook_at = clock.steps + self.pending_len[tid]
        clock._recompute()

    def unblock(self, lock):
        for t in [t for t, l in self.blocked.items() if l is lock]:
            del self.blocked[t]

    def _next(self):
        alive = [t for t in range(self.n) if self.alive[t] and t not in self.blocked]
        if not alive:
            if any(self.alive[t] for t in range(self.n)) and self.blocked:
                return None, 0
            return None, 0
        if self.replay is not None:
            while self.rpos < len(self.replay):
                t, k = self.replay[self.rpos]
                self.rpos += 1
                if t in alive and k > 0:
                    return t, k
            return alive[0], INF
        t = alive[self.rng.randrange(len(alive))] if len(alive) > 1 else alive[0]
        k = int(self.rng.expovariate(1.0 / self.mean)) + 1
        return t, k

    def _make_hook(self, tid):
        def hook(clock, frame):
            self.log.append([tid, clock.steps - self.seg_start[tid]])
            nxt, k = self._next()
            if nxt == tid:
                self.seg_start[tid] = clock.steps
                return clock.steps + k
            self.switches += 1
            code = frame.f_code
            self.switch_locs[(clock.rel(code.co_filename), frame.f_lineno or 0)] += 1
            self.pending_len[nxt] = k
            self.sems[nxt].release()
            self._wait(tid)
            self.seg_start[tid] = clock.steps
            return clock.steps + self.pending_len[tid]
        return hook

    def _wait(self, tid):
        if not self.sems[tid].acquire(timeout=WATCHDOG_S):
            self.stuck = 'thread %d never got the baton back' % tid
            self.main.release()
            raise HarnessStuck(self.stuck)

    # -- thread life cycle ---------------------------------------------------------
    def run(self, bodies):
        """bodies[tid](clock) is run in thread tid.  Returns when all are done."""
        threads = []
        for tid in range(self.n):
            th = threading.Thread(target=self._body, args=(tid, bodies[tid]), name='sim-%d' % tid, daemon=True)
            threads.append(th)
            th.start()
        nxt, k = self._next()
        self.pending_len[nxt] = k
        self.sems[nxt].release()
        if not self.main.acquire(timeout=WATCHDOG_S * 4):
            self.stuck = self.stuck or 'main never got control back'
        if self.stuck:
            raise HarnessStuck(self.stuck)
        for th in threads:
            th.join(WATCHDOG_S)
            if th.is_alive():
                raise HarnessStuck('thread did not end')

    def _body(self, tid, body):
        clock = self.clocks[tid]
        _tls.baton = self
        _tls.tid = tid
        try:
            self._wait(tid)
            self.seg_start[tid] = clock.steps
            clock.hook_at = clock.steps + self.pending_len[tid]
            clock._recompute()
            body(clock)
        except HarnessStuck:
            return
        except BaseException as e:  # harness-level failure inside a simulated thread
            self.errors.append('%s: %s' % (type(e).__name__, e))
        finally:
            clock.disarm()
        self.log.append([tid, clock.steps - self.seg_start[tid]])
        self.alive[tid] = False
        _tls.baton = None
        nxt, k = self._next()
        if nxt is None:
            if self.blocked:
                # the last runnable thread ended while others still wait for a lock nobody will release
                self.deadlock = True
                for t in list(self.blocked):
                    del self.blocked[t]
                    self.sems[t].release()
                return
            self.main.release()
        else:
            self.pending_len[nxt] = k
            self.sems[nxt].release()

    def compact_log(self):
        """Decision list with zero-length segments dropped and same-thread neighbours merged."""
        out = []
        for t, k in self.log:
            if k <= 0:
                continue
            if out and out[-1][0] == t:
                out[-1][1] += k
            else:
                out.append([t, k])
        return out
