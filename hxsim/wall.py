"""Wall-clock backstop for work the line-step clock cannot see (one long C call: catastrophic
regex backtracking, big-int arithmetic).  CPython's sre engine and long arithmetic poll for signals,
so an ITIMER_REAL alarm whose handler raises unwinds them.  Only usable on the main thread."""
import signal
import threading

from . import REPO


class WallBudgetExceeded(BaseException):
    def __init__(self, where):
        BaseException.__init__(self, 'wall budget exceeded')
        self.where = where


def _handler(signum, frame):
    where = None
    f = frame
    while f is not None:
        fn = f.f_code.co_filename
        if fn.startswith(REPO) or '/ply/' in fn:
            where = [fn[len(REPO) + 1:] if fn.startswith(REPO) else 'ply/' + fn.rsplit('/', 1)[-1], f.f_lineno, f.f_code.co_name]
            break
        f = f.f_back
    raise WallBudgetExceeded(where)


_installed = False


class wall_limit(object):
    def __init__(self, seconds):
        self.seconds = seconds
        self.active = False

    def __enter__(self):
        global _installed
        if threading.current_thread() is threading.main_thread():
            if not _installed:
                signal.signal(signal.SIGALRM, _handler)
                _installed = True
            signal.setitimer(signal.ITIMER_REAL, self.seconds)
            self.active = True
        return self

    def __exit__(self, *exc):
        if self.active:
            signal.setitimer(signal.ITIMER_REAL, 0)
        return False
