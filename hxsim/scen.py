"""Scenario building blocks shared by C01/C02/C03: slot (host) generation, step budget,
shrinking helpers."""
import json

from . import values as V
from .host import EVENTS, EXC_CATALOGUE

BENIGN_EXC = ['ValueError', 'TypeError', 'KeyError', 'ZeroDivisionError', 'RuntimeError', 'XL:#DIV/0!',
              'XL:#N/A', 'XL:#VALUE!', 'SyntaxError']


LAZY = [False]     # C01 switches this on for its fault stream (values are then decoded fresh per scenario)


def pick_value(rng, hostile):
    r = rng.random()
    if hostile and LAZY[0] and r < 0.08:
        return rng.choice(V.POOL_LAZY)
    if hostile and r < 0.25:
        return rng.choice(V.POOL_HOSTILE)
    if r < 0.45:
        return rng.choice(V.POOL_CONTAINERS)
    return rng.choice(V.POOL_SCALARS)


def gen_fn_script(rng, fault, hostile, excs):
    n = rng.choice([1, 1, 1, 2, 3])
    script = []
    for _ in range(n):
        r = rng.random()
        if r < fault:
            script.append({'a': 'raise', 'e': rng.choice(excs), 'm': rng.choice(['boom', '#N/A', '#FOO!', ''])})
        elif r < fault + 0.2:
            script.append({'a': rng.choice(['echo', 'echo', 'echoall'])})
        else:
            script.append({'a': 'ret', 'v': pick_value(rng, hostile)})
    return script


def gen_listener_script(rng, event, fault, hostile, excs):
    n = rng.choice([1, 1, 2, 3])
    script = []
    for _ in range(n):
        r = rng.random()
        if r < fault:
            script.append({'a': 'raise', 'e': rng.choice(excs), 'm': rng.choice(['boom', '#REF!', ''])})
        elif r < fault + 0.15:
            script.append({'a': 'noset'})
        elif r < fault + 0.25:
            script.append({'a': 'set', 'v': [pick_value(rng, hostile), pick_value(rng, hostile)]})
        elif event in ('callRangeValue', 'callCellValue') and rng.random() < 0.3:
            script.append({'a': 'table'})
        elif event == 'callRangeValue' and rng.random() < 0.7:
            script.append({'a': 'set', 'v': [rng.choice(V.POOL_CONTAINERS)]})
        elif event == 'callFunction' and rng.random() < 0.6:
            script.append({'a': 'noset'})
        else:
            script.append({'a': 'set', 'v': [pick_value(rng, hostile)]})
    return script


def gen_slot(rng, fault=0.0, hostile=False, excs=None, debug=None, prefix='', nvars=None):
    """A host: variables v0.., custom functions F0.., listeners.  `fault` = probability that a
    scripted invocation raises."""
    excs = excs or EXC_CATALOGUE
    slot = {'debug': bool(rng.random() < 0.3) if debug is None else debug,
            'variables': {}, 'functions': {}, 'listeners': {}}
    for k in range(rng.randrange(0, 5) if nvars is None else nvars):
        slot['variables']['%sv_%d' % (prefix, k)] = pick_value(rng, hostile)
    for k in range(rng.randrange(0, 4)):
        slot['functions']['%sF%d' % (prefix, k)] = gen_fn_script(rng, fault, hostile, excs)
    if rng.random() < 0.15:
        # shadow a built-in with a custom function
        slot['functions'][rng.choice(['SUM', 'IF', 'ABS', 'LEN'])] = gen_fn_script(rng, fault, hostile, excs)
    for ev in EVENTS:
        p = {'callFunction': 0.3, 'callVariable': 0.35, 'callCellValue': 0.7, 'callRangeValue': 0.7}[ev]
        n = 0
        while n < 3 and rng.random() < p:
            n += 1
        if n:
            slot['listeners'][ev] = [gen_listener_script(rng, ev, fault, hostile, excs) for _ in range(n)]
    # a callback that translates one shared error into another (`raise a from b`) gets a sibling translating back
    flavours = set(a['e'] for sc_ in list(slot['functions'].values()) + [x for ls in slot['listeners'].values() for x in ls]
                   for a in sc_ if a['a'] == 'raise' and a['e'].startswith('XLFROM:'))
    for k, fl in enumerate(sorted(flavours)):
        a_, b_ = fl[7:].split('|')
        slot['functions']['%sFREV%d' % (prefix, k)] = [{'a': 'raise', 'e': 'XLFROM:%s|%s' % (b_, a_)}]
    return slot


def slot_env(slot, extra_unbound=()):
    from .formgen import Env
    fns = {}
    for name, script in slot['functions'].items():
        fns[name] = 1 if any(a['a'] in ('echo',) for a in script) else len(name) % 3
    fns = dict((k, (0 if k == 'REENTER' else v)) for k, v in fns.items() if k not in ('SUM', 'IF', 'ABS', 'LEN'))
    return Env(variables=sorted(slot['variables']), unbound=['u_0', 'zz_top'] + list(extra_unbound),
               functions=fns, cells=True)


def host_elements(slot):
    n = 0
    for v in slot.get('variables', {}).values():
        n += V.scalar_count(v)
    for script in slot.get('functions', {}).values():
        for a in script:
            n += _act_elems(a)
    for ls in slot.get('listeners', {}).values():
        for script in ls:
            for a in script:
                n += _act_elems(a)
    return n


def _act_elems(a):
    if a['a'] in ('ret', 'build') and 'v' in a:
        return V.scalar_count(a['v'])
    if a['a'] in ('set', 'set_in_thread'):
        return sum(V.scalar_count(x) for x in a['v'])
    if a['a'] in ('nested', 'nested_build'):
        return 100 + 6 * len(a.get('f', ''))
    return 1


def budget(text, elems):
    """Step budget of one evaluation (DESIGN 2.2): linear in formula length and host data size."""
    return 50000 + 3000 * len(text) + 500 * elems


# ---------------------------------------------------------------- shrinking helpers
def clone(x):
    return json.loads(json.dumps(x))


def shrink_list(lst, min_len=0):
    """ddmin-style candidates: the list with a chunk removed."""
    n = len(lst)
    size = n // 2
    while size >= 1:
        for lo in range(0, n, size):
            c = lst[:lo] + lst[lo + size:]
            if len(c) >= min_len:
                yield c
        size //= 2


def shrink_text(text):
    n = len(text)
    size = n // 2
    while size >= 1:
        for lo in range(0, n, size):
            yield text[:lo] + text[lo + size:]
        size //= 2


def shrink_slot(slot):
    """Candidates with one binding / listener / script action removed or simplified."""
    for name in sorted(slot.get('variables', {})):
        c = clone(slot)
        del c['variables'][name]
        yield c
        if slot['variables'][name] != V.I(1):
            c = clone(slot)
            c['variables'][name] = V.I(1)
            yield c
    for name in sorted(slot.get('functions', {})):
        c = clone(slot)
        del c['functions'][name]
        yield c
        sc = slot['functions'][name]
        for k in range(len(sc)):
            if len(sc) > 1:
                c = clone(slot)
                del c['functions'][name][k]
                yield c
            if sc[k] != {'a': 'ret', 'v': V.I(1)}:
                c = clone(slot)
                c['functions'][name][k] = {'a': 'ret', 'v': V.I(1)}
                yield c
    for ev in sorted(slot.get('listeners', {})):
        ls = slot['listeners'][ev]
        for i in range(len(ls)):
            c = clone(slot)
            del c['listeners'][ev][i]
            if not c['listeners'][ev]:
                del c['listeners'][ev]
            yield c
            for k in range(len(ls[i])):
                if len(ls[i]) > 1:
                    c = clone(slot)
                    del c['listeners'][ev][i][k]
                    yield c
                if ls[i][k] != {'a': 'noset'}:
                    c = clone(slot)
                    c['listeners'][ev][i][k] = {'a': 'noset'}
                    yield c
    if slot.get('debug'):
        c = clone(slot)
        c['debug'] = False
        yield c
