"""The scripted host application: parser slots with variables, custom functions and
listeners whose behaviour is a JSON script (so it goes into replay files verbatim)."""
import os
import threading
import zlib
from collections import Counter

from . import canon as C
from . import values as V
from .stepclock import SimAbort

EVENTS = ('callFunction', 'callVariable', 'callCellValue', 'callRangeValue')


class BadStr(Exception):
    def __str__(self):
        raise RuntimeError('__str__ failed')


class Unhashable(Exception):
    """An exception type that defines equality and therefore has no hash (like a @dataclass exception)."""
    def __eq__(self, other):
        return type(other) is type(self) and other.args == self.args
    __hash__ = None


class BadHash(Exception):
    def __hash__(self):
        raise TypeError('no hash today')


class BadRepr(Exception):
    def __repr__(self):
        raise RuntimeError('__repr__ failed')


def make_exc(name, msg='boom'):
    from hotxlfp.formulas import error as E
    if name.startswith('XL:'):
        return E.from_message(name[3:])
    if name == 'XLFRESH':
        return E.XLError(msg)
    if name == 'CodeMsg':
        return Exception(msg if msg.startswith('#') else '#N/A')
    if name == 'LongMsg':
        return Exception('x' * 10000)
    if name == 'BadStr':
        return BadStr(msg)
    if name == 'BadRepr':
        return BadRepr(msg)
    if name == 'Unhashable':
        return Unhashable(msg)
    if name == 'BadHash':
        return BadHash(msg)
    if name == 'XLUnhashable':
        cls = type('XLUnhashableError', (E.XLError,), {'__eq__': lambda a, b: a is b, '__hash__': None})
        return cls('#N/A')
    if name == 'KeyError':
        return KeyError(msg)
    if name == 'UnicodeDecodeError':
        return UnicodeDecodeError('utf-8', b'\xff', 0, 1, msg)
    if name == 'UnicodeEncodeError':
        return UnicodeEncodeError('ascii', '\xff', 0, 1, msg)
    if name == 'StopIteration':
        return StopIteration(msg)
    if name.startswith('XLFROM:'):
        # a host translating one spreadsheet error into another: `raise a from b` (scen.gen_slot adds a second callback
        # translating in the opposite direction)
        a, b = name[7:].split('|')
        exc = E.from_message(a)
        exc.__cause__ = E.from_message(b)
        return exc
    if name == 'ChainFrom':
        exc = ValueError(msg)
        exc.__cause__ = KeyError('inner')
        exc.__cause__.__context__ = RuntimeError('deeper')
        return exc
    if name.startswith('Arg:'):
        # an exception whose first argument is a structured payload (validation-library style)
        kind = name[4:]
        payload = {'dict': {'cell': 'A1'}, 'list': ['#N/A', 'detail'], 'set': set(['x']), 'none': None, 'int': 5,
                   'bytes': b'\xff\xfe', 'exc': ValueError('inner'), 'nested': [[1, [2]]], 'float': float('nan'),
                   'tuple': ('#N/A',), 'bool': True, 'obj': V.Opaque(), 'code': '#N/A', 'codelist': ['#DIV/0!'],
                   'surrogate': '\ud800'}[kind]
        cls = {'dict': Exception, 'list': ValueError, 'set': KeyError, 'exc': RuntimeError, 'code': LookupError}.get(kind, Exception)
        return cls(payload)
    if name.startswith('XLArg:'):
        kind = name[6:]
        payload = {'dict': {'k': 1}, 'list': ['#N/A'], 'none': None, 'int': 7, 'two': '#N/A'}[kind]
        if kind == 'two':
            return E.XLError('#N/A', 'detail')
        return E.XLError(payload)
    if name == 'NoArgs':
        return Exception()
    if name == 'TupleArgs':
        return Exception('#N/A', 2)
    cls = {
        'ValueError': ValueError, 'TypeError': TypeError, 'IndexError': IndexError,
        'ZeroDivisionError': ZeroDivisionError, 'OverflowError': OverflowError,
        'ArithmeticError': ArithmeticError, 'AttributeError': AttributeError,
        'RuntimeError': RuntimeError, 'RecursionError': RecursionError, 'MemoryError': MemoryError,
        'AssertionError': AssertionError, 'OSError': OSError, 'LookupError': LookupError,
        'SyntaxError': SyntaxError, 'IndentationError': IndentationError, 'Exception': Exception,
        'NotImplementedError': NotImplementedError, 'NameError': NameError,
        'FloatingPointError': FloatingPointError, 'BufferError': BufferError, 'EOFError': EOFError,
        'ImportError': ImportError,
    }[name]
    return cls(msg)


EXC_CATALOGUE = [
    'ValueError', 'TypeError', 'KeyError', 'IndexError', 'ZeroDivisionError', 'OverflowError',
    'ArithmeticError', 'AttributeError', 'RuntimeError', 'RecursionError', 'MemoryError',
    'AssertionError', 'StopIteration', 'OSError', 'UnicodeDecodeError', 'UnicodeEncodeError',
    'LookupError', 'SyntaxError', 'IndentationError', 'NotImplementedError', 'NameError', 'EOFError',
    'XL:#ERROR!', 'XL:#DIV/0!', 'XL:#NAME?', 'XL:#N/A', 'XL:#NULL!', 'XL:#NUM!', 'XL:#REF!',
    'XL:#VALUE!', 'XL:#GETTING_DATA', 'XLFRESH', 'CodeMsg', 'LongMsg', 'BadStr', 'BadRepr',
    'NoArgs', 'TupleArgs', 'Exception',
    'Arg:dict', 'Arg:list', 'Arg:set', 'Arg:none', 'Arg:int', 'Arg:bytes', 'Arg:exc', 'Arg:nested', 'Arg:float',
    'Arg:tuple', 'Arg:bool', 'Arg:obj', 'Arg:code', 'Arg:codelist', 'Arg:surrogate',
    'XLArg:dict', 'XLArg:list', 'XLArg:none', 'XLArg:int', 'XLArg:two', 'Unhashable', 'BadHash', 'XLUnhashable',
    'XLFROM:#VALUE!|#N/A', 'XLFROM:#N/A|#VALUE!', 'XLFROM:#REF!|#DIV/0!', 'XLFROM:#DIV/0!|#REF!', 'ChainFrom',
]


def describe_cell(cell):
    """What a spreadsheet host derives from a Cell: everything in the payload matters."""
    try:
        return '%s|%s|%s|%s|%s' % (cell.label, cell.row.index, cell.col.index, bool(cell.row.is_absolute), bool(cell.col.is_absolute))
    except Exception as e:
        return 'bad cell: %s' % type(e).__name__


def cell_payload(cell):
    """Canonical rendering of a Cell handed to a listener, without trusting it."""
    def part(p):
        try:
            return [p.index, p.label, bool(p.is_absolute)]
        except Exception:
            return ['badpart', type(p).__name__]
    try:
        return [cell.label, part(cell.row), part(cell.col)]
    except Exception:
        return ['badcell', type(cell).__name__]


class Slot(object):
    def __init__(self, world, idx, spec):
        from hotxlfp import Parser
        self.world = world
        self.idx = idx
        self.spec = spec
        self.frames_by_thread = {}   # thread ident -> stack of Counters (invocation counts per active evaluation)
        self.host_objects = []  # persistent host-supplied objects (for H3 snapshots)
        self.listener_fns = {}
        self.parser = Parser(debug=bool(spec.get('debug', False)))
        self.bind_all()

    # -- binding -------------------------------------------------------
    def bind_all(self):
        for name, val in self.spec.get('variables', {}).items():
            self.bind_variable(name, val)
        for name, script in self.spec.get('functions', {}).items():
            self.bind_function(name, script)
        for event in EVENTS:
            for i, script in enumerate(self.spec.get('listeners', {}).get(event, [])):
                self.bind_listener(event, i, script)

    def bind_variable(self, name, val):
        obj = V.dec(val)
        self.host_objects.append(obj)
        self.parser.set_variable(name, obj)

    def _compile(self, script):
        out = []
        for act in script:
            a = dict(act)
            if 'v' in a and a['a'] in ('ret', 'build'):
                a['_o'] = V.dec(a['v'])
                self.host_objects.append(a['_o'])
            elif a['a'] == 'set':
                a['_o'] = [V.dec(x) for x in a['v']]
                self.host_objects.extend(a['_o'])
            out.append(a)
        return out

    def bind_function(self, name, script):
        world, slot = self.world, self
        acts = self._compile(script)

        def fn(*args):
            n = slot.next_inv('f:' + name)
            act = acts[n] if n < len(acts) else acts[-1]
            if world.logging:
                world.log.append([slot.idx, 'fn', name, C.canon(list(args)), world.depth])
            return world.act(slot, act, 'fn', name, args, None, None)
        fn.__name__ = 'custom_' + name
        self.parser.set_function(name, fn)

    def bind_listener(self, event, i, script, once=False):
        world, slot = self.world, self
        acts = self._compile(script)
        key = '%s#%d' % (event, i)

        def listener(*args):
            n = slot.next_inv('l:' + key)
            act = acts[n] if n < len(acts) else acts[-1]
            setter = args[-1]
            if world.logging:
                if event == 'callFunction':
                    payload = [args[0], C.canon(args[1])]
                elif event == 'callVariable':
                    payload = [args[0]]
                elif event == 'callCellValue':
                    payload = cell_payload(args[0])
                else:
                    payload = [cell_payload(args[0]), cell_payload(args[1])]
                world.log.append([slot.idx, event, i, payload, world.depth])
            world.act(slot, act, event, key, args[:-1], setter, listener)
        listener.__name__ = 'listener_' + key
        self.listener_fns[key] = listener
        if once:
            self.parser.once(event, listener)
        else:
            self.parser.on(event, listener)
        return listener

    @property
    def frames(self):
        tid = threading.get_ident()
        st = self.frames_by_thread.get(tid)
        if st is None:
            st = self.frames_by_thread[tid] = []
        return st

    def next_inv(self, key):
        fr = self.frames[-1] if self.frames else self.world.idle_frame
        n = fr[key]
        fr[key] = n + 1
        return n


class World(object):
    """All parser slots of one scenario plus the fault counters and the event log."""

    def __init__(self, slot_specs, logging=False):
        self.logging = logging
        self.log = []
        self.fired = Counter()
        self.idle_frame = Counter()
        self.depths = {}       # nesting depth of evaluations, per caller thread
        self.max_depth = 0
        self.built = 0
        self.taps = {}
        self.xlfrom_flips = 0
        self.slots = [None if s is None else Slot(self, i, s) for i, s in enumerate(slot_specs)]

    def evaluate(self, slot_id, formula):
        slot = self.slots[slot_id]
        slot.frames.append(Counter())
        tid = threading.get_ident()
        d = self.depths.get(tid, 0) + 1
        self.depths[tid] = d
        if d > self.max_depth:
            self.max_depth = d
        try:
            if _in_handler(d, formula):
                # a host that evaluates from inside an exception handler (`try: table[key]` / `except KeyError:
                # evaluate a default formula`): sys.exc_info() is set for the whole call, bare `raise` would find an
                # exception, everything raised inside gets a __context__.  Decided by nesting depth + formula text, no
                # PRNG draw; a solo reference of a nested formula runs at another depth, so usually in the other context
                self.fired['evaluate_inside_except_handler'] += 1
                try:
                    raise KeyError('miss')
                except KeyError:
                    return slot.parser.parse(formula)
            return slot.parser.parse(formula)
        finally:
            self.depths[tid] = d - 1
            slot.frames.pop()

    @property
    def depth(self):
        return self.depths.get(threading.get_ident(), 0)

    def host_snapshot(self):
        return C.dumps([[C.canon(o) for o in s.host_objects] for s in self.slots if s is not None])

    # -- script actions ----------------------------------------------------
    def act(self, slot, act, kind, name, args, setter, me):
        from hotxlfp.formulas import error as E
        a = act['a']
        fired = self.fired
        if a == 'ret':
            if setter is None:
                fired['cb_return[%s]' % act['v']['t']] += 1
                if act['v']['t'] == 'lazy':
                    fired['cb_return_lazy[%s]' % act['v']['v']] += 1
                    return V.dec(act['v'])      # a fresh iterator every time
                return act['_o']
            return None
        if a == 'retobj':          # reference runs only: a Python object, never serialised
            if setter is None:
                return act['obj']
            if act['obj'] is not None:
                setter(act['obj'])
            return None
        if a == 'set_in_thread':
            # the listener hands its setter to a worker thread and waits for it (thread pool, fetch with timeout)
            fired['setter_called_from_worker_thread'] += 1
            objs = [V.dec(x) for x in act['v']]
            if setter is not None:
                def work():
                    for o in objs:
                        setter(o)
                th = threading.Thread(target=work, daemon=True)
                th.start()
                th.join()
            return None
        if a == 'set':
            objs = act['_o']
            if len(objs) > 1:
                fired['setter_twice'] += 1
            for k_, o in enumerate(objs):
                if act['v'][k_]['t'] == 'lazy':
                    o = V.dec(act['v'][k_])
                    fired['setter_lazy[%s]' % act['v'][k_]['v']] += 1
                if o is None:
                    fired['setter_none'] += 1
                elif o is False or (not isinstance(o, (list, tuple, dict)) and o == 0) or o == '' or o == []:
                    fired['setter_falsy'] += 1
                if setter is not None:
                    setter(o)
            if setter is None:
                return objs[-1] if objs else None
            return None
        if a == 'noset':
            fired['setter_skipped'] += 1
            return None
        if a == 'table':
            # the host looks the reference up in its sheet: the value is a function of the payload
            fired['table_lookup'] += 1
            if setter is None:
                return None
            if kind == 'callCellValue':
                setter(describe_cell(args[0]))
            elif kind == 'callRangeValue':
                setter([[describe_cell(args[0]), describe_cell(args[1])]])
            return None
        if a == 'echo':
            return args[0] if args else None
        if a == 'echoall':
            return list(args)
        if a == 'raise':
            if kind == 'fn':
                fired['cb_raise[%s]' % act['e']] += 1
            else:
                fired['listener_raise[%s,%s]' % (kind, act['e'])] += 1
            if act['e'] in ('SyntaxError', 'IndentationError'):
                fired['syntaxerror_from_callback'] += 1
            ename = act['e']
            exc = make_exc(ename, act.get('m', 'boom'))
            if ename.startswith('XLFROM:'):
                raise exc from exc.__cause__
            raise exc
        if a == 'abort':
            fired['cb_abort'] += 1
            raise SimAbort('callback abort')
        if a == 'build':
            from hotxlfp import Parser
            Parser()
            self.built += 1
            fired['parser_built_in_callback'] += 1
            if setter is None:
                return act.get('_o')
            if act.get('_o') is not None:
                setter(act['_o'])
            return None
        if a == 'nested_thread':
            # the callback delegates a nested evaluation to a worker thread and waits for it
            if self.depth > act.get('maxdepth', 99):
                fired['nested_suppressed_by_depth'] += 1
                return None
            fired['nested_in_worker_thread'] += 1
            box = {}
            parent_depth = self.depth

            def work():
                self.depths[threading.get_ident()] = parent_depth     # nesting depth carries over to the worker
                try:
                    box['res'] = self.evaluate(act['slot'], act['f'])
                except BaseException as e:     # reported through the value, like any failing nested evaluation
                    box['res'] = {'result': None, 'error': '#ERROR!'}
            th = threading.Thread(target=work, daemon=True)
            th.start()
            th.join()
            val = nested_value(box.get('res'))
            if not act.get('use', True):
                return None
            if setter is None:
                return val
            if val is not None:
                setter(val)
            return None
        if a in ('nested', 'nested_build'):
            if self.depth > act.get('maxdepth', 99):
                fired['nested_suppressed_by_depth'] += 1
                return None
            if a == 'nested_build':
                from hotxlfp import Parser
                fired['nested_build'] += 1
                self.built += 1
                res = Parser(debug=bool(act.get('debug', False))).parse(act['f'])
            else:
                if act['slot'] == slot.idx:
                    fired['nested_same'] += 1
                else:
                    fired['nested_other'] += 1
                if self.depth >= 2:
                    fired['nested_depth2'] += 1
                res = self.evaluate(act['slot'], act['f'])
            if 'tap' in act:
                self.taps.setdefault(act['tap'], []).append(res)
            val = nested_value(res)
            if not act.get('use', True):
                return None       # an audit hook: evaluates, hands nothing on
            if setter is None:
                return val
            if val is not None:
                setter(val)
            return None
        if a == 'off_self':
            fired['reentrant_off'] += 1
            slot.parser.off(kind, me)
            if 'v' in act and setter is not None:
                setter(V.dec(act['v']))
            return None
        if a == 'on_other':
            fired['reentrant_on'] += 1
            slot.bind_listener(kind, act['id'], act['script'], once=bool(act.get('once')))
            if 'v' in act and setter is not None:
                setter(V.dec(act['v']))
            return None
        raise AssertionError('unknown action %r' % a)




def _in_handler(depth, formula):
    if os.environ.get('HXSIM_NO_HANDLER'):
        return False
    try:
        data = ('%d|%s' % (depth, formula)).encode('utf-8', 'surrogatepass')
    except Exception:
        return False
    return zlib.crc32(data) % 3 == 0


def nested_value(res):
    """What a callback hands on from a nested evaluation's record."""
    from hotxlfp.formulas import error as E
    if type(res) is dict and res.get('error') is None:
        return res.get('result')
    if type(res) is dict:
        return E.from_message(res.get('error'))
    return res
