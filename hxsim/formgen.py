"""Seeded formula corpus G1..G6 (see DESIGN 2.4).  Everything is a function of the rng."""
import inspect
import re

from . import values as V

OPS = ['+', '-', '*', '/', '&', '^', '=', '<>', '<', '>', '<=', '>=']
# '^' between two arbitrary expressions is not in the grammar (only NUMBER ^ NUMBER); it is kept
# in the operator list on purpose: it yields syntax errors in otherwise well-formed trees.
GRAMMAR_OPS = ['+', '-', '*', '/', '&', '=', '<>', '<', '>', '<=', '>=']

TOKEN_ALPHABET = [
    ' ', '  ', '\t', '\n', '"', "'", '"a"', "'b'", '""', 'SUM(', 'IF(', 'F0(', 'x.y(', '#N/A', '#DIV/0!',
    '#REF!', '#X', '#', '$A$1', '$A1', 'A$1', 'A1', 'a1', 'ZZ99', 'AAAA1048577', 'v0', 'v_0', 'v_1', 'u_0', '_x', 'TRUE',
    'FALSE', 'NULL', '0', '1', '12', '007', '{', '}', '&', '.', ':', ';', ',', '\\', '*', '/', '-', '+', '^',
    '(', ')', '<>', '>=', '<=', '>', '<', '!', '=', '%', 'é', '漢', '\x00', '\ud800', '😀', 'E', 'e5',
]

# Functions whose cost at C level grows with the *magnitude* of a numeric argument (big-int power,
# factorial, 10**digits, rjust(places)).  A line-step clock cannot see inside one C call, so their
# arguments are kept to leaves (literals <= 4 digits, pool values): see DESIGN 2.2 / 8.
RISKY = frozenset(['FACT', 'FACTDOUBLE', 'POWER', 'ROUNDUP', 'ROUNDDOWN', 'ROUND', 'BASE', 'DEC2HEX', 'PV'])
_RISKY_RE = re.compile(r'\b(%s)\s*\(' % '|'.join(sorted(RISKY)), re.I)
_POW_RE = re.compile(r'([0-9]+)(\s*\^\s*)([0-9]+)')
_DIGITS_RE = re.compile(r'[0-9]{6,}')


def _tame_pow(m):
    b, mid, e = m.group(1), m.group(2), m.group(3)
    return b[:5] + mid + e[:2]


_MAGNIFY_RE = re.compile(r'\b(%s|PRODUCT|EXP|SUMSQ|MAX|MAXA|LARGE|CHOOSE|INDEX|N|VALUE|DECIMAL|HEX2DEC|ARABIC|SUM|DAYS|DATEVALUE)\s*\(|[*^]|[0-9]{4,}' % '|'.join(sorted(RISKY)), re.I)


def magnifies(text):
    """Could this formula evaluate to a number large enough to stall a magnitude-sensitive function it is fed into?"""
    return bool(_MAGNIFY_RE.search(text))


def tame(text):
    """Keep literal NUMBER^NUMBER small (the only magnitude-driven C-level work reachable from
    token soups): base <= 5 digits, exponent <= 2 digits."""
    return _POW_RE.sub(_tame_pow, text)


_FN_INFO = None
_FN_PARAMS = {}

CRITERIA = ['">1"', '"<2"', '">=0"', '"<=3"', '"<>3"', '"=1"', '"a*"', '"?b"', '"abc"', '3', '"="', '">"', '"<>"', '""',
            '">=abc"', '"<>"&1', '"*"', 'TRUE', '"=TRUE"', '">2020-01-01"']
UNITS = ['"y"', '"m"', '"d"', '"md"', '"ym"', '"yd"', '"Y"', '"x"']
FORMATS = ['"yyyy"', '"0.00"', '"dd/mm/yyyy"', '"#,##0"', '"0%"', '"hh:mm"', '""', '"@"']
DATES = ['"2020-02-29"', 'DATE(2020,2,29)', 'NOW()', '43890', '"10:30 PM"', 'TODAY()', '"March 5"', '1', '60', '61', '0.5',
         '"1900-03-01"', '"31/12/1999"', '"2021-05-06 10:00 XQZ"', '"10:30 PM EST"', '"2020-02-29T10:00:00+02:00"', '"2023-01-31"',
         'DATE(2023,11,15)', '"2019-12-31"', '"May 6 2021 10:00 BRST"']
SMALL_INTS = ['-14', '-12', '-2', '-1', '0', '1', '2', '3', '10', '11', '12', '13', '14', '24', '36']
ARRAYS = ['{1,2,3}', '{3;1;2}', '{1,2;3,4}', '{"a","b","c"}', '{1,"a",TRUE}', 'A1:B2', 'B2:A1', '{5}', '{1,,2}', '{0.5,-1}',
          '{1,2,}', '{,1,2}', '{,}', '{;;}', '{1;2;}', '{10,20,30,}', '{1,1,1}', '{3,2,1}', '{"b","a",}', '{1,2,3;4,5,}']


def typed_arg(rng, env, pname, depth):
    """An argument that suits the parameter's name, so that function bodies are entered deeply."""
    star = pname.startswith('*')
    p = pname.lstrip('*').lower()
    if 'criteria' in p:
        if star and rng.random() < 0.5:
            return rng.choice(ARRAYS)
        return rng.choice(CRITERIA) if rng.random() < 0.9 else rng.choice(LONG_STRINGS)
    if p in ('args', 'arr', 'lookup_array', 'sum_args', 'average_range', 'yx'):
        r = rng.random()
        if r < 0.6:
            return rng.choice(ARRAYS)
        if r < 0.8 and env.variables:
            return rng.choice(env.variables)
        return gen_expr(rng, env, depth)
    if p == 'unit':
        return rng.choice(UNITS)
    if p == 'format_text':
        return rng.choice(FORMATS) if rng.random() < 0.75 else rng.choice(LONG_STRINGS)
    if 'text' in p or p in ('char', 'delimiter', 'hex'):
        return text_literal(rng)
    if 'date' in p or p in ('serial_number', 'time'):
        return rng.choice(DATES)
    if p in ('month', 'months', 'instance_num', 'return_type', 'match_type', 'form', 'area_num') and rng.random() < 0.7:
        return rng.choice(SMALL_INTS)
    if p in ('number', 'value', 'significance', 'num_chars', 'base', 'digits', 'places', 'month', 'year', 'day', 'n', 'power',
             'numerator', 'denominator', 'row_num', 'column_num', 'start_num', 'instance_num', 'match_type', 'hour',
             'minute', 'second', 'bottom', 'top', 'form', 'return_type', 'rate', 'periods', 'payment', 'x_num', 'y_num',
             'real', 'imaginary', 'dec', 'number1', 'number2', 'type', 'future'):
        return number_literal(rng) if rng.random() < 0.8 else gen_expr(rng, env, 0)
    return gen_expr(rng, env, depth)


def fn_info():
    """name -> (min_args, max_args or None) for every built-in, by introspection."""
    global _FN_INFO
    if _FN_INFO is None:
        from hotxlfp import formulas
        info = {}
        for name in formulas.supported():
            f = formulas.dispatcher._registry_[name]
            lo = hi = 0
            pnames = []
            try:
                for p in inspect.signature(f).parameters.values():
                    if p.kind in (p.POSITIONAL_ONLY, p.POSITIONAL_OR_KEYWORD):
                        hi += 1
                        pnames.append(p.name)
                        if p.default is p.empty:
                            lo += 1
                    elif p.kind == p.VAR_POSITIONAL:
                        hi = None
                        pnames.append('*' + p.name)
                        break
            except (TypeError, ValueError):
                lo, hi = 0, None
            info[name] = (lo, hi)
            _FN_PARAMS[name] = pnames
        _FN_INFO = info
    return _FN_INFO


def fn_names():
    return sorted(fn_info())


# --- G1 -----------------------------------------------------------------------
def _codepoint(rng):
    r = rng.random()
    if r < 0.35:
        return rng.randrange(0x20, 0x7f)
    if r < 0.45:
        return rng.randrange(0x00, 0x20)
    if r < 0.60:
        return rng.randrange(0x80, 0x800)
    if r < 0.80:
        c = rng.randrange(0x800, 0x10000)
        return c
    if r < 0.88:
        return rng.randrange(0xD800, 0xE000)   # lone surrogates
    return rng.randrange(0x10000, 0x110000)


def g1_unicode(rng):
    return tame(_g1_unicode(rng))


def _g1_unicode(rng):
    n = rng.choice([0, 1, 2, 3, 5, 8, 13, 30, 80, 200]) if rng.random() < 0.5 else rng.randrange(0, 40)
    chars = []
    for _ in range(n):
        if rng.random() < 0.15:
            chars.append(rng.choice(TOKEN_ALPHABET))
        else:
            chars.append(chr(_codepoint(rng)))
    return ''.join(chars)


# --- G2 -----------------------------------------------------------------------
def g2_soup(rng):
    n = rng.randrange(1, 25) if rng.random() < 0.8 else rng.randrange(25, 120)
    return tame(''.join(rng.choice(TOKEN_ALPHABET) for _ in range(n)))


# --- G3 -----------------------------------------------------------------------
class Env(object):
    """Names a formula may use.  bound/unbound variables, custom functions (name->arity)."""

    def __init__(self, variables=(), unbound=('u_0', 'zz_top'), functions=None, cells=True, builtins=None, deny=()):
        self.deny = frozenset(deny)    # reference kinds a formula must not contain: 'var','cell','range','fn'
        self.variables = list(variables)
        self.unbound = list(unbound)
        self.functions = dict(functions or {})
        self.cells = cells
        self.builtins = builtins


def number_literal(rng):
    k = rng.randrange(8)
    if k == 0:
        return str(rng.choice([0, 1, 2, 3, 7, 10, 12, 100, 255, 1000, 2020, 9999]))
    if k == 1:
        return '%d.%d' % (rng.randrange(100), rng.randrange(1000))
    if k == 2:
        return '.%d' % rng.randrange(100)
    if k == 3:
        return '%d^%d' % (rng.randrange(12), rng.randrange(6))
    if k == 4:
        return '%d%%' % rng.randrange(200)
    if k == 5:
        return str(rng.randrange(10))
    if k == 6:
        return '0%d' % rng.randrange(100) if rng.random() < 0.5 else '%d.0' % rng.choice([0, 1, 2, 3, 7, 10, 12, 64, 100, 2020])
    return str(rng.randrange(0, 10000))


STRINGS = ['""', '"abc"', '"12"', '"-3.5"', '"2020-02-29"', '"a*"', '"é漢"', '"March 5"', '"10:30 PM"',
           '"1+2i"', '"FF"', '"y"', '"md"', "'sq'", '" "', '"TRUE"', '"#N/A"', '"a""b"', '"x,y"', '"1e3"',
           '"0x1F"', '"31/12/2020"', '"1900-01-01"', '"?b*"', '">1"', '"<>"', '"="']


LONG_STRINGS = ['"Outstanding balance on your account as of today: 0.00"', '"' + 'x' * 45 + '#"', '"' + 'ab ' * 15 + '0"',
                '"' + 'a' * 50 + '"', '"' + '.' * 40 + '1"', '"' + 'a,' * 25 + '"', '"' + '0' * 40 + 'a"', '"' + ' ' * 40 + 'x"',
                '"' + 'a*' * 20 + '?"', '"' + '<>' * 20 + '1"', '"' + 'yyyy-' * 10 + 'mm"', '"' + '9' * 30 + '"',
                '"' + 'é' * 40 + '0.0"', '"' + 'Z' * 35 + '1:' + 'A' * 5 + '"']


def text_literal(rng):
    """A string literal; one in ten is long (runs of 30-50 characters before a different character class: what
    backtracking regular expressions inside function bodies choke on)."""
    return rng.choice(LONG_STRINGS) if rng.random() < 0.1 else rng.choice(STRINGS)


def cell_label(rng):
    col = rng.choice(['A', 'B', 'C', 'Z', 'AA', 'AZ', 'XFD', 'a', 'bc', 'ZZZZ'])
    row = rng.choice([1, 2, 3, 5, 9, 10, 99, 1048576, 1048577])
    k = rng.randrange(6)
    if k == 0:
        return '$%s$%d' % (col, row)
    if k == 1:
        return '$%s%d' % (col, row)
    if k == 2:
        return '%s$%d' % (col, row)
    return '%s%d' % (col, row)


def array_literal(rng, env, depth):
    sep = rng.choice([',', ';', '\\'])
    n = rng.randrange(1, 5)
    items = []
    for _ in range(n):
        r = rng.random()
        if r < 0.12:
            items.append('')
        elif r < 0.8 or depth <= 0:
            items.append(rng.choice([number_literal(rng), rng.choice(STRINGS), 'TRUE', '-1']))
        else:
            items.append(gen_expr(rng, env, depth - 1))
    if rng.random() < 0.2 and sep == ',':
        # 2-D: rows of comma lists joined with ';'
        rows = [','.join(number_literal(rng) for _ in range(rng.randrange(1, 4))) for _ in range(rng.randrange(2, 4))]
        return '{' + ';'.join(rows) + '}'
    return '{' + sep.join(items) + '}'


def builtin_call(rng, env, depth, name=None, force_typed=False):
    info = fn_info()
    if name is None:
        name = rng.choice(env.builtins or fn_names())
    lo, hi = info.get(name, (0, None))
    if rng.random() < 0.75:
        top = hi if hi is not None else lo + 3
        n = rng.randint(lo, max(lo, top))
    else:
        n = rng.randrange(0, 5)
    sep = ',' if rng.random() < 0.9 else rng.choice([';', '\\'])
    args = []
    sub = 0 if name in RISKY else depth - 1
    if name in RISKY:
        return '%s(%s)' % (name, sep.join('' if rng.random() < 0.04 else leaf_arg(rng, env) for _ in range(n)))
    pnames = _FN_PARAMS.get(name, [])
    typed = (force_typed or rng.random() < 0.6) and not env.deny
    for j in range(n):
        if rng.random() < 0.04:
            args.append('')
        elif typed and pnames:
            pn = pnames[j] if j < len(pnames) else pnames[-1]
            if pn.startswith('*') and 'criteria' in pn:
                pn = pn if (j - len(pnames) + 1) % 2 == 1 else 'args'     # range, criteria, range, criteria ...
            a = typed_arg(rng, env, pn, sub)
            args.append(a if name not in RISKY else (a if _leafy(a) else gen_expr(rng, env, 0)))
        else:
            args.append(gen_expr(rng, env, sub))
    return '%s(%s)' % (name, sep.join(args))


def _leafy(text):
    return '(' not in text and '*' not in text and '^' not in text


def leaf_arg(rng, env):
    """A strictly call-free, operator-free argument (for the magnitude-sensitive functions)."""
    k = rng.randrange(8)
    if k <= 3:
        return str(rng.choice([0, 1, 2, 3, 7, 10, 12, 36, 100, 255, 1000, 9999])) if rng.random() < 0.7 else '%d.%d' % (rng.randrange(100), rng.randrange(100))
    if k == 4:
        return rng.choice(STRINGS)
    if k == 5 and env.variables and 'var' not in env.deny:
        return rng.choice(env.variables)
    if k == 6 and env.cells and 'cell' not in env.deny:
        return cell_label(rng)
    if 'var' in env.deny:
        return rng.choice(['-1', '-2.5', '0.5', '""'])
    return rng.choice(['TRUE', 'FALSE', '-1', '-2.5', '0.5', '""'])     # TRUE/FALSE are variable references


def custom_call(rng, env, depth):
    name = rng.choice(sorted(env.functions))
    ar = env.functions[name]
    n = ar if rng.random() < 0.8 else rng.randrange(0, 4)
    return '%s(%s)' % (name, ','.join(gen_expr(rng, env, depth - 1) for _ in range(n)))


def gen_expr(rng, env, depth):
    if depth <= 0:
        k = rng.randrange(10)
    else:
        k = rng.randrange(22)
    if env.deny:
        deny = env.deny
        if (k == 4 or k == 8) and 'var' in deny:
            k = 0
        elif k == 6 and 'cell' in deny:
            k = 1
        elif k == 7 and 'range' in deny:
            k = 3
        elif (k == 9 or k >= 16) and 'fn' in deny:
            k = 12 if depth > 0 else 2
    if k <= 2:
        return number_literal(rng)
    if k == 3:
        return text_literal(rng)
    if k == 4:
        if rng.random() < 0.7 and env.variables:
            return rng.choice(env.variables)
        return rng.choice(['TRUE', 'FALSE', 'NULL'] + env.unbound)  # note: TRUE/FALSE/NULL are variable references
    if k == 5:
        return rng.choice(V.ERR_CODES) if rng.random() < 0.5 else number_literal(rng)
    if k == 6:
        if env.cells:
            return cell_label(rng)
        return number_literal(rng)
    if k == 7:
        if env.cells:
            return cell_label(rng) + ':' + cell_label(rng)
        return rng.choice(STRINGS)
    if k == 8:
        return array_literal(rng, env, depth)
    if k == 9:
        if env.functions:
            return custom_call(rng, env, depth)
        return builtin_call(rng, env, depth)
    if k == 10:
        return '-' + gen_expr(rng, env, depth - 1)
    if k == 11:
        return '(' + gen_expr(rng, env, depth - 1) + ')'
    if k <= 15:
        op = rng.choice(GRAMMAR_OPS) if rng.random() < 0.97 else '^'
        sp = rng.choice(['', '', ' ', '  '])
        return gen_expr(rng, env, depth - 1) + sp + op + sp + gen_expr(rng, env, depth - 1)
    if k <= 19:
        return builtin_call(rng, env, depth)
    if env.functions:
        return custom_call(rng, env, depth)
    return builtin_call(rng, env, depth)


def g3_tree(rng, env, depth=None):
    if depth is None:
        depth = rng.choice([1, 2, 2, 3, 3, 4])
    return tame(gen_expr(rng, env, depth))


# --- G4 -----------------------------------------------------------------------
_TOK = re.compile(r'"[^"]*"|\'[^\']*\'|[A-Za-z_.$][A-Za-z_0-9.$]*|[0-9]+|<>|>=|<=|\s+|.', re.S)


def g4_damage(rng, text):
    out = tame(_g4_damage(rng, text))
    if _RISKY_RE.search(out) and (_DIGITS_RE.search(out) or _risky_args_changed(text, out)):
        return out[:rng.randrange(len(out) + 1)] if _safe_prefix(text, out) else text[:rng.randrange(len(text) + 1)]
    return out


def _risky_spans(text):
    """Text of every magnitude-sensitive call, from its name to the end of the formula."""
    return [text[m.start():] for m in _RISKY_RE.finditer(text)]


def _risky_args_changed(orig, out):
    # conservative: any change after the first magnitude-sensitive call name counts
    a, b = _risky_spans(orig), _risky_spans(out)
    if not b:
        return False
    if not a:
        return True
    return not a[0].startswith(b[0])


def _safe_prefix(orig, out):
    return orig.startswith(out)


def _g4_damage(rng, text):
    toks = _TOK.findall(text)
    if not toks:
        return rng.choice(['(', ')', '{', '"', ','])
    for _ in range(rng.choice([1, 1, 1, 2, 3])):
        k = rng.randrange(8)
        i = rng.randrange(len(toks))
        if k == 0:
            toks = toks[:i]
        elif k == 1:
            del toks[i]
        elif k == 2:
            toks.insert(i, toks[i])
        elif k == 3 and len(toks) > 1:
            j = rng.randrange(len(toks))
            toks[i], toks[j] = toks[j], toks[i]
        elif k == 4:
            toks.insert(i, rng.choice(['(', ')', '{', '}', '"', "'", ',', ';', ':', '!', '#', '%', '.', '$']))
        elif k == 5:
            toks[i] = rng.choice(TOKEN_ALPHABET)
        elif k == 6:
            toks = toks[i:]
        else:
            toks.insert(i, rng.choice(OPS))
        if not toks:
            break
    return ''.join(toks)


# --- G5: function x arity x pool-as-text, sampled without replacement ---------------
G5_POOL = [
    '', 'TRUE', 'FALSE', '0', '1', '-1', '2', '7', '255', '1000', '0.5', '-2.5', '1E2', '""', '"abc"', '"12"',
    '"-3.5"', '"2020-02-29"', '"a*"', '"é漢"', '"March 5"', '"y"', '#N/A', '#DIV/0!', '{1,2,3}', '{1,2;3,4}',
    '{"a","b"}', 'DATE(2020,2,29)', 'NULL', 'A1', 'B2:A1', 'v_list', 'v_nan', 'v_inf', 'v_obj', 'v_bytes',
    '{1,2,}', 'v_blanks',
]

G5_VARIABLES = {
    'v_list': V.L(V.I(3), V.I(1), V.I(2)), 'v_nan': V.F(float('nan')), 'v_inf': V.F(float('inf')),
    'v_obj': {'t': 'object'}, 'v_bytes': {'t': 'bytes', 'v': b'bytes'.hex()},
    'v_blanks': V.L(V.I(10), V.I(20), V.NONE, V.NONE),
}


def g5_space(max_arity=4):
    """Sizes of the per-arity blocks of the product space."""
    n = len(fn_names())
    t = len(G5_POOL)
    return [n * (t ** k) for k in range(max_arity + 1)]


def g5_case(arity, index):
    """The index-th (function, args) combination of the given arity."""
    names = fn_names()
    t = len(G5_POOL)
    f = names[index % len(names)]
    index //= len(names)
    args = []
    for _ in range(arity):
        args.append(G5_POOL[index % t])
        index //= t
    return '%s(%s)' % (f, ','.join(args))


def coprime_mult(n, rng):
    import math
    while True:
        a = rng.randrange(1, max(2, n))
        if math.gcd(a, n) == 1:
            return a


class G5Sampler(object):
    """Enumerates each arity block in a seeded affine permutation: run i of arity k gets
    case (a*i+b) mod N_k, so a longer batch covers strictly more, without repeats."""

    def __init__(self, seed_rng, max_arity=4):
        self.sizes = g5_space(max_arity)
        self.perm = []
        for n in self.sizes:
            self.perm.append((coprime_mult(n, seed_rng), seed_rng.randrange(n)))

    def case(self, arity, i):
        n = self.sizes[arity]
        a, b = self.perm[arity]
        return g5_case(arity, (a * (i % n) + b) % n)


# --- G7: long and deep inputs (budget linearity, parser stack depth) --------------------------
def g7_long(rng, env):
    k = rng.randrange(11)
    n = rng.choice([50, 200, 600, 1500]) if rng.random() < 0.3 else rng.choice([30, 60, 120])
    if k == 9:
        d = rng.choice([20, 100, 400, 1500, 3000])
        return '{' * d + rng.choice(['1', '1,2', 'A1', '']) + '}' * d        # deeply nested array RESULT
    if k == 10:
        d = rng.choice([20, 100, 400, 1500])
        return rng.choice(['SUM(', 'LEN(', '-', '1+']) + '{' * d + '1' + '}' * (d if rng.random() < 0.8 else d - 1) + rng.choice([')', ''])
    if k == 0:
        return '+'.join(str(rng.randrange(10)) for _ in range(n))
    if k == 1:
        d = rng.choice([20, 100, 400])
        return '(' * d + '1' + ')' * d
    if k == 2:
        d = rng.choice([20, 100, 300])
        return '(' * d + '1'                          # unbalanced, deep
    if k == 3:
        return '{' + ','.join(str(rng.randrange(100)) for _ in range(n)) + '}'
    if k == 4:
        return 'SUM(' + ','.join(rng.choice(['1', 'A1', '"x"', 'TRUE', '{1,2}', '']) for _ in range(n)) + ')'
    if k == 5:
        return '"' + ''.join(rng.choice('ab c,;(){}1+') for _ in range(n * 3)) + rng.choice(['"', ''])
    if k == 6:
        d = rng.choice([10, 40, 120])
        return 'IF(1,' * d + '2' + ')' * d
    if k == 7:
        return '&'.join(rng.choice(['"a"', 'B2', 'zz_top', '1']) for _ in range(n))
    return '-' * rng.choice([10, 100, 1000]) + '1'


# --- G8: inputs that stress the lexer's regular expressions (catastrophic backtracking lives in repeats) ---
G8_UNITS = ['\\a', '\\"', "\\'", '\\\\', '"a', "'a", 'a"', '""', "''", '$A', 'A$1', '#N', '#N/A', '.', '1.', 'e1', '<>', '>=', 'A1:', ' ', 'a.b',
            'ab', '\\ ', '\\x y', '1E', '_', 'aA1', '!', '%', '\\n']


def g8_regex_stress(rng):
    unit = rng.choice(G8_UNITS)
    body = unit * rng.choice([20, 30, 40, 60])
    if rng.random() < 0.3:
        body += rng.choice(G8_UNITS) * 3
    opener = rng.choice(['"', "'", '', '"', '("', 'SUM("', '{"'])
    closer = rng.choice(['', '', '', '"', "'", ')'])
    prefix = rng.choice(['', '', '1+', 'A1&', 'SUM(1,', '=', '-', '{1,'])
    return tame(prefix + opener + body + closer)
