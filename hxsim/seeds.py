"""One integer decides everything: VERIF_SEED -> splitmix64 -> per-run sub-seeds."""
import os
import random

MASK = (1 << 64) - 1


def splitmix64(x):
    x = (x + 0x9E3779B97F4A7C15) & MASK
    z = x
    z = ((z ^ (z >> 30)) * 0xBF58476D1CE4E5B9) & MASK
    z = ((z ^ (z >> 27)) * 0x94D049BB133111EB) & MASK
    return z ^ (z >> 31)


def _tag(s):
    h = 0xCBF29CE484222325
    for b in s.encode('utf-8'):
        h = ((h ^ b) * 0x100000001B3) & MASK
    return h


def base_seed():
    try:
        return int(os.environ.get('VERIF_SEED', '0') or '0')
    except ValueError:
        return _tag(os.environ.get('VERIF_SEED', ''))


def sub_seed(seed, stream, index):
    """Seed of run `index` of stream `stream` (a string) under VERIF_SEED=seed."""
    return splitmix64(splitmix64((seed & MASK) ^ _tag(stream)) ^ splitmix64(index & MASK))


def rng_for(seed, stream, index):
    return random.Random(sub_seed(seed, stream, index))
