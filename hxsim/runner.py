"""Batch runner: seeded runs over forked workers, violation minimisation, replay files,
known findings, evidence.  A check module provides:

  PROPERTY            'C01'
  STREAMS             {stream_name: {'quick': n_runs, 'thorough': n_runs}}
  gen(stream, rng, i, cfg)      -> scenario (JSON-serialisable dict), a pure function of (rng, i)
  execute(scenario, stats)      -> list of violations [{'invariant','sig','detail'}]; deterministic
  shrink_candidates(scenario)   -> iterator of smaller scenarios (optional)
  nontrivial(scenario, stats)   -> digest int or None (optional; default: digest of the scenario)
  describe()                    -> dict merged into evidence (rule, assumptions, real/stub table ...)
"""
import faulthandler
import hashlib
import importlib
import json
import multiprocessing
import os
import signal
import sys
import tempfile
import time
import traceback
from collections import Counter
from concurrent.futures import FIRST_COMPLETED, ProcessPoolExecutor, wait
from concurrent.futures.process import BrokenProcessPool

from . import REPO, VERIF, canon, seeds

HARNESS_EXIT = 2
DIGEST_CAP = 6000000     # the parent keeps the distinct-case digests in memory; beyond this the count is a lower bound


class HarnessError(Exception):
    pass


def load_check(prop):
    return importlib.import_module('checks.' + prop.lower())


def warm_up():
    """Import the code under test, build one parser (writes PLY's table cache once, before
    any fork), install the seams."""
    import hotxlfp
    if not os.path.realpath(hotxlfp.__file__).startswith(REPO):
        raise HarnessError('hotxlfp imported from %s, not from %s' % (hotxlfp.__file__, REPO))
    from . import seams, sched
    seams.install()
    sched.install_lock_seam()
    # one construction and one evaluation in this single process: whatever the tree builds lazily (PLY's LALR tables
    # and their cache file above all) now exists, before any worker is forked
    hotxlfp.Parser().parse('1')
    # file-system seam: from here on nobody rewrites PLY's shared table cache.  Without it an injected asynchronous
    # exception landing inside yacc's table loading (possible once a tree builds its grammar lazily, inside an
    # evaluation) makes PLY regenerate and rewrite the file non-atomically while 16 other processes import it
    import ply.yacc as _yacc
    _yacc.LRGeneratedTable.write_table = lambda self, *a, **k: None
    _yacc.LRGeneratedTable.pickle_table = lambda self, *a, **k: None
    return hotxlfp


def _worker_init():
    signal.signal(signal.SIGINT, signal.SIG_IGN)


def _in_child(fn, args, what='task'):
    """Run fn(*args) in a forked child of this (pristine) process and return its result: nothing a
    chunk evaluates can leak into the next chunk, so a chunk is a pure function of (seed, stream, lo, hi)."""
    import pickle
    r, w = os.pipe()
    sys.stdout.flush()
    from .cleanroom import _fork_retry
    pid = _fork_retry()
    if pid == 0:
        os.close(r)
        try:
            try:
                res = ('ok', fn(*args))
            except BaseException:
                res = ('exc', traceback.format_exc())
            with os.fdopen(w, 'wb') as fh:
                pickle.dump(res, fh, protocol=pickle.HIGHEST_PROTOCOL)
        finally:
            os._exit(0)
    os.close(w)
    with os.fdopen(r, 'rb') as fh:
        data = fh.read()
    os.waitpid(pid, 0)
    if not data:
        raise HarnessError('%s: child process died without a result' % what)
    status, val = pickle.loads(data)
    if status != 'ok':
        raise HarnessError('%s failed in the harness:\n%s' % (what, val))
    return val


def _chunk(prop, stream, seed, tier, lo, hi, cfg, statedir, want_samples):
    return _in_child(_chunk_body, (prop, stream, seed, tier, lo, hi, cfg, statedir, want_samples),
                     'chunk %s[%d:%d]' % (stream, lo, hi))


def _chunk_body(prop, stream, seed, tier, lo, hi, cfg, statedir, want_samples, only_last=False):
    """Run scenarios lo..hi-1 of one stream.  Returns a picklable summary."""
    from . import cleanroom
    cleanroom.ensure()          # this process has evaluated nothing yet
    mod = load_check(prop)
    stats = Counter()
    digests = set()
    violations = []
    samples = []
    reach = set()
    sets = {}
    marker = os.path.join(statedir, 'w%d' % os.getpid())
    faulthandler.dump_traceback_later(cfg.get('chunk_wall', 240), exit=True, file=sys.__stderr__)
    try:
        for i in range(lo, hi):
            with open(marker, 'w') as fh:
                fh.write('%s %d' % (stream, i))
            rng = seeds.rng_for(seed, prop + '/' + stream, i)
            sc = mod.gen(stream, rng, i, cfg)
            sc['_stream'] = stream
            sc['_run'] = i
            sc['_seed'] = seed
            sc['_chunk_lo'] = lo
            local = Counter()
            try:
                vs = mod.execute(sc, local)
            except HarnessError:
                raise
            _merge(stats, local)
            stats['runs'] += 1
            d = mod.nontrivial(sc, local) if hasattr(mod, 'nontrivial') else canon.digest_int(_strip(sc))
            if isinstance(d, (tuple, list)):
                digests.update(d)
            elif d is not None:
                digests.add(d)
            if '_reach' in sc:
                reach.update(tuple(x) for x in sc.pop('_reach'))
            for nm, items in sc.pop('_sets', {}).items():
                sets.setdefault(nm, set()).update(items)
            if vs:
                stats['violating_runs'] += 1
                if len(violations) < 3:
                    violations.append((sc, vs))
                if stats.get('wall_timeouts', 0) >= 2:
                    # a tree on which single evaluations hang costs 20 s each: two confirmations per chunk suffice
                    stats['runs_skipped_after_wall_timeouts'] += hi - i - 1
                    break
            if want_samples and len(samples) < want_samples and (i - lo) % max(1, (hi - lo) // want_samples) == 0:
                samples.append(_strip(sc))
    finally:
        faulthandler.cancel_dump_traceback_later()
        try:
            os.unlink(marker)
        except OSError:
            pass
    return {'stream': stream, 'lo': lo, 'hi': hi, 'stats': stats, 'digests': digests,
            'violations': violations, 'samples': samples, 'reach': reach, 'sets': sets}


def _strip(sc):
    return dict((k, v) for k, v in sc.items() if not k.startswith('_') or k in ('_stream', '_run', '_seed', '_shrink_execs', '_chunk_lo'))


def _fails_same(prop, sc, invariant):
    try:
        vs = _in_child(_single_body, (prop, json.loads(json.dumps(sc))), 'shrink candidate')
    except Exception:
        return False
    return any(v['invariant'] == invariant for v in vs)


def _shrink_task(prop, sc, invariant, max_exec):
    """Greedy minimisation while the same invariant id keeps failing."""
    mod = load_check(prop)
    if not hasattr(mod, 'shrink_candidates'):
        return sc, 0
    faulthandler.dump_traceback_later(600, exit=True, file=sys.__stderr__)
    cur = sc
    execs = 0
    improved = True
    while improved and execs < max_exec:
        improved = False
        for cand in mod.shrink_candidates(cur):
            if execs >= max_exec:
                break
            execs += 1
            if _fails_same(prop, cand, invariant):
                cur = cand
                improved = True
                break
    faulthandler.cancel_dump_traceback_later()
    return cur, execs


def _single(prop, sc):
    return _in_child(_single_body, (prop, sc), 'replay')


def _single_body(prop, sc):
    from . import cleanroom
    cleanroom.ensure()
    mod = load_check(prop)
    return mod.execute(sc, Counter())


def load_known():
    path = os.path.join(VERIF, 'known_findings.json')
    try:
        with open(path) as fh:
            return json.load(fh)
    except FileNotFoundError:
        return {'entries': [], 'open': []}


def write_replay(prop, sc, violation):
    body = _strip(sc)
    body['property'] = prop
    body['invariant'] = violation['invariant']
    body['sig'] = violation.get('sig')
    body['observed'] = violation.get('detail')
    text = json.dumps(body, indent=1, sort_keys=True, ensure_ascii=True)
    h = hashlib.blake2b(text.encode('ascii'), digest_size=6).hexdigest()
    d = os.environ.get('HXSIM_REPLAY_DIR') or os.path.join(VERIF, 'replays')
    os.makedirs(d, exist_ok=True)
    path = os.path.join(d, '%s-%s-%s.json' % (prop, violation['invariant'], h))
    with open(path, 'w') as fh:
        fh.write(text + '\n')
    return path


def run_check(prop, tier, seed=None, workers=None, out=sys.stdout):
    t0 = time.time()
    seed = seeds.base_seed() if seed is None else seed
    workers = workers or int(os.environ.get('VERIF_WORKERS', '0')) or min(16, os.cpu_count() or 1)
    mod = load_check(prop)
    warm_up()
    cfg = mod.config(tier, seed) if hasattr(mod, 'config') else {}
    cfg.setdefault('tier', tier)
    wall_cap = float(os.environ.get('VERIF_WALL_CAP', cfg.get('wall_cap', 150 if tier == 'quick' else 3000)))
    scale = float(os.environ.get('VERIF_SCALE', '1'))
    statedir = tempfile.mkdtemp(prefix='hxsim-')
    ctx = multiprocessing.get_context('fork')
    total = Counter()
    digests = set()
    reach = set()
    allsets = {}
    samples = []
    found = []
    planned = 0
    done_runs = 0
    truncated = False
    harness_problem = None
    per_stream = {}
    print('hxsim %s tier=%s seed=%d workers=%d repo=%s' % (prop, tier, seed, workers, REPO), file=out)
    out.flush()
    # pre-pass hooks that need a single fresh process (e.g. C02's census)
    extra = {}
    ex = ProcessPoolExecutor(max_workers=workers, mp_context=ctx, initializer=_worker_init)
    futs = {}
    try:
        # tasks that need one fresh process (e.g. C02's live-object census) go first and are always awaited
        if hasattr(mod, 'single_process_tasks'):
            for name, fn_name, arg in mod.single_process_tasks(tier, seed, cfg):
                f = ex.submit(_call, prop, fn_name, arg)
                futs[f] = ('task:' + name, 0, 0)
        # chunks of all streams are submitted round-robin, so that a wall-cap truncation thins every stream
        # out proportionally instead of starving the streams listed last
        queues = []
        for stream, sizes in mod.STREAMS.items():
            n = int(sizes[tier] * scale)
            if n <= 0:
                continue
            planned += n
            per_stream[stream] = {'planned': n, 'done': 0}
            csize = max(1, min(sizes.get('chunk', 2000), -(-n // (workers * 4))))
            queues.append([(stream, lo, min(n, lo + csize)) for lo in range(0, n, csize)])
        seen_first = set()
        while any(queues):
            for q in queues:
                if not q:
                    continue
                stream, lo, hi = q.pop(0)
                f = ex.submit(_chunk, prop, stream, seed, tier, lo, hi, cfg, statedir, 2 if stream not in seen_first else 0)
                seen_first.add(stream)
                futs[f] = (stream, lo, hi)
        pending = set(futs)
        grace_until = None
        while pending:
            done, pending = wait(pending, timeout=2.0, return_when=FIRST_COMPLETED)
            for f in done:
                stream, lo, hi = futs[f]
                if f.cancelled():
                    continue
                r = f.result()
                if stream.startswith('task:'):
                    extra[stream[5:]] = r
                    total.update(r.get('stats', {}))
                    for sc, vs in r.get('violations', []):
                        found.append((sc, vs))
                    continue
                _merge(total, r['stats'])
                if len(digests) < DIGEST_CAP:
                    digests.update(r['digests'])
                else:
                    total['distinct_digests_not_counted_beyond_cap'] += len(r['digests'])
                reach.update(r['reach'])
                for nm, items in r.get('sets', {}).items():
                    allsets.setdefault(nm, set()).update(items)
                samples.extend(r['samples'])
                per_stream[stream]['done'] += hi - lo
                done_runs += hi - lo
                for sc, vs in r['violations']:
                    found.append((sc, vs))
            now = time.time()
            if now - t0 > wall_cap and not truncated:
                truncated = True
                for g in pending:
                    if not futs[g][0].startswith('task:'):
                        g.cancel()
                pending = set(g for g in pending if not g.cancelled())
                grace_until = now + float(cfg.get('grace', 45))
            if truncated and pending and now > grace_until:
                # chunks still running long after the cap: give up on them (no verdict from them);
                # a single-process task gets five more minutes, then its loss is a harness error
                tasks_left = [g for g in pending if futs[g][0].startswith('task:')]
                if tasks_left and now < grace_until + 300:
                    continue
                if tasks_left:
                    harness_problem = 'task %s did not finish' % [futs[g][0] for g in tasks_left]
                abandoned = len(pending)
                total['abandoned_chunks'] += abandoned
                _kill_pool(ex)
                pending = set()
    except BrokenProcessPool:
        harness_problem = 'a worker process died (see stderr); in-flight: %s' % _inflight(statedir)
    finally:
        _kill_pool(ex)
        try:
            for fn in os.listdir(statedir):
                os.unlink(os.path.join(statedir, fn))
            os.rmdir(statedir)
        except OSError:
            pass

    # minimise in fresh workers, so a hanging or state-corrupting replay cannot hurt the parent
    reports = []
    known_hits = {}
    if found and not harness_problem:
        seen_sigs = set()
        known = load_known()
        open_sigs = dict(((e['property'], e['sig']), e) for e in known.get('open', []))
        with ProcessPoolExecutor(max_workers=2, mp_context=ctx, initializer=_worker_init) as ex2:
            for sc, vs in sorted(found, key=lambda x: (x[0].get('_stream', ''), x[0].get('_run', 0))):
                for v in vs:
                    key = (prop, v.get('sig') or v['invariant'])
                    if key in open_sigs:
                        known_hits[key] = open_sigs[key]
                        continue
                    if key in seen_sigs:
                        continue
                    seen_sigs.add(key)
                    if len(reports) >= int(cfg.get('max_reports', 4)):
                        continue
                    execs = -1
                    if v['invariant'].endswith('wall_backstop') and hasattr(mod, 'quick_reduce'):
                        small = mod.quick_reduce(_strip(sc), v)
                        small['_shrink_execs'] = 0
                        small['_unshrunk'] = _strip(sc)
                        small['_needs_fresh_confirmation'] = True
                        reports.append((small, v))
                        continue
                    try:
                        small, execs = ex2.submit(_shrink_task, prop, _strip(sc), v['invariant'],
                                                  int(cfg.get('shrink_exec', 300))).result(timeout=900)
                        vs2 = ex2.submit(_single, prop, json.loads(json.dumps(small))).result(timeout=300)
                        v2 = [x for x in vs2 if x['invariant'] == v['invariant']]
                        if not v2:
                            small, v2 = _strip(sc), [v]
                    except Exception:  # shrinking is best-effort; report unshrunk
                        small, v2 = _strip(sc), [v]
                    small['_shrink_execs'] = execs
                    small['_unshrunk'] = _strip(sc)
                    reports.append((small, v2[0]))

    replay_paths = []
    replay_verified = []
    for k, (small, v) in enumerate(reports):
        path = write_replay(prop, small, v)
        ok = _verify_replay(prop, path)
        if not ok and '_unshrunk' in small:
            # the minimised scenario does not stand alone: fall back to the scenario as found
            big = small['_unshrunk']
            path2 = write_replay(prop, big, v)
            if _verify_replay(prop, path2):
                try:
                    os.unlink(path)
                except OSError:
                    pass
                path, ok = path2, True
            else:
                try:
                    os.unlink(path2)
                except OSError:
                    pass
                # state outside the parser objects: the violation needs earlier runs of the same chunk.  A chunk is a
                # pure function of (seed, stream, lo..): replay the shortest suffix of it that still fails
                at, lo = big.get('_run'), big.get('_chunk_lo')
                if at is not None and lo is not None and '_stream' in big:
                    starts = []
                    d = 1
                    while at - d > lo:
                        starts.append(at - d)
                        d *= 2
                    starts.append(lo)
                    for st in starts:
                        path3 = write_chunk_replay(prop, big['_stream'], seed, tier, st, at, v)
                        if _verify_replay(prop, path3, timeout=1800):
                            try:
                                os.unlink(path)
                            except OSError:
                                pass
                            path, ok = path3, True
                            break
                        try:
                            os.unlink(path3)
                        except OSError:
                            pass
        replay_paths.append(path)
        replay_verified.append(ok)
    # a wall-clock verdict only counts when a fresh process confirms it
    keep = [k for k in range(len(reports)) if replay_verified[k] or not reports[k][0].get('_needs_fresh_confirmation')]
    dropped = len(reports) - len(keep)
    if dropped:
        total['wall_timeouts_not_confirmed_in_fresh_process'] += dropped
        for k in range(len(reports)):
            if k not in keep:
                try:
                    os.unlink(replay_paths[k])
                except OSError:
                    pass
    reports = [reports[k] for k in keep]
    replay_paths = [replay_paths[k] for k in keep]
    replay_verified = [replay_verified[k] for k in keep]
    wall = time.time() - t0
    for key, e in sorted(known_hits.items()):
        print('KNOWN-FINDING: property=%s %s' % (prop, e.get('what', e['sig'])), file=out)
    ev = build_evidence(mod, prop, tier, seed, total, digests, reach, samples, wall, planned, done_runs,
                        truncated, per_stream, extra, len(reports), workers)
    for nm, items in sorted(allsets.items()):
        ev['coverage']['distinct_' + nm] = len(items)
    evdir = os.environ.get('HXSIM_EVIDENCE_DIR') or os.path.join(VERIF, 'evidence')
    os.makedirs(evdir, exist_ok=True)
    with open(os.path.join(evdir, prop + '.json'), 'w') as fh:
        json.dump(ev, fh, indent=1, sort_keys=True)
        fh.write('\n')
    print('%s: %d/%d runs, %d evaluations, %d distinct non-trivial, %d sim steps, %.1fs wall%s' % (
        prop, done_runs, planned, ev['coverage']['evaluations'], ev['coverage']['distinct_nontrivial'],
        total.get('steps', 0), wall, ' (TRUNCATED by wall cap)' if truncated else ''), file=out)
    if harness_problem:
        print('HARNESS-ERROR %s' % harness_problem, file=out)
        return HARNESS_EXIT
    if reports:
        for (small, v), path, ok in sorted(zip(reports, replay_paths, replay_verified), key=lambda x: not x[2]):
            print('VIOLATION property=%s replay=%s' % (prop, path), file=out)
            print('  invariant=%s sig=%s replay_reproduces_in_fresh_process=%s' % (v['invariant'], v.get('sig'), ok), file=out)
            if not ok:
                print('  note: the violation depends on what the same worker process ran before (process-global state); '
                      'rerun the check with the same VERIF_SEED to observe it again', file=out)
            print('  detail=%s' % json.dumps(v.get('detail'), ensure_ascii=True)[:600], file=out)
        return 1
    if done_runs == 0:
        print('HARNESS-ERROR no runs completed', file=out)
        return HARNESS_EXIT
    print('OK property=%s held on everything explored' % prop, file=out)
    return 0


def _merge(total, stats):
    for k, v in stats.items():
        if k.startswith('max_'):
            if v > total.get(k, 0):
                total[k] = v
        else:
            total[k] += v


def _kill_pool(ex):
    procs = list(getattr(ex, '_processes', {}).values()) if getattr(ex, '_processes', None) else []
    ex.shutdown(wait=False, cancel_futures=True)
    for p in procs:
        try:
            if p.is_alive():
                p.terminate()
        except Exception:
            pass
    for p in procs:
        try:
            p.join(5)
            if p.is_alive():
                p.kill()
        except Exception:
            pass


def write_chunk_replay(prop, stream, seed, tier, lo, at, violation):
    body = {'property': prop, 'invariant': violation['invariant'], 'sig': violation.get('sig'),
            'observed': violation.get('detail'),
            'chunk_replay': {'stream': stream, 'seed': seed, 'tier': tier, 'from_run': lo, 'failing_run': at},
            'how': 'runs from_run..failing_run of the stream are regenerated from the seed and executed in order in one '
                   'fresh process; the violation is reported by failing_run'}
    text = json.dumps(body, indent=1, sort_keys=True, ensure_ascii=True)
    h = hashlib.blake2b(text.encode('ascii'), digest_size=6).hexdigest()
    d = os.environ.get('HXSIM_REPLAY_DIR') or os.path.join(VERIF, 'replays')
    os.makedirs(d, exist_ok=True)
    path = os.path.join(d, '%s-%s-%s.json' % (prop, violation['invariant'], h))
    with open(path, 'w') as fh:
        fh.write(text + '\n')
    return path


def _verify_replay(prop, path, timeout=600):
    """Re-execute a replay file in a fresh interpreter; True iff it reports the violation again."""
    import subprocess
    try:
        p = subprocess.run([sys.executable, os.path.join(VERIF, 'check'), prop, '--replay', path],
                           stdout=subprocess.PIPE, stderr=subprocess.PIPE, timeout=timeout)
    except Exception:
        return False
    return p.returncode == 1 and b'VIOLATION' in p.stdout


def _call(prop, fn_name, arg):
    return _in_child(_call_body, (prop, fn_name, arg), 'task %s' % fn_name)


def _call_body(prop, fn_name, arg):
    mod = load_check(prop)
    return getattr(mod, fn_name)(arg)


def _inflight(statedir):
    out = []
    try:
        for fn in sorted(os.listdir(statedir)):
            with open(os.path.join(statedir, fn)) as fh:
                out.append(fh.read())
    except OSError:
        pass
    return out


def build_evidence(mod, prop, tier, seed, total, digests, reach, samples, wall, planned, done_runs,
                   truncated, per_stream, extra, nviol, workers):
    desc = mod.describe() if hasattr(mod, 'describe') else {}
    faults = dict((k[6:], v) for k, v in sorted(total.items()) if k.startswith('fault:'))
    probes = dict((k[6:], v) for k, v in sorted(total.items()) if k.startswith('probe:'))
    gens = dict((k[4:], v) for k, v in sorted(total.items()) if k.startswith('gen:'))
    expected_faults = desc.get('fault_kinds', [])
    never = [k for k in expected_faults if not any(f == k or f.startswith(k + '[') for f in faults)]
    cov = {
        'evaluations': int(total.get('evals', 0)),
        'distinct_nontrivial': len(digests),
        'rule': desc.get('rule', ''),
        'samples': samples[:6],
        'simulated_runs': done_runs,
        'planned_runs': planned,
        'truncated_by_wall_cap': truncated,
        'per_stream': per_stream,
        'simulated_steps': int(total.get('steps', 0)),
        'runs_per_hour': int(done_runs / wall * 3600) if wall > 0 else 0,
        'seeds_per_hour': int(done_runs / wall * 3600) if wall > 0 else 0,
        'faults_fired': faults,
        'fault_kinds_never_fired': never,
        'probes': probes,
        'generators': gens,
        'distinct_lines_reached': len(reach),
        'workers': workers,
        'real_vs_stub': desc.get('real_vs_stub', {}),
        'other_counters': dict((k, v) for k, v in sorted(total.items())
                               if not k.startswith(('fault:', 'probe:', 'gen:')) and k not in ('evals', 'steps')),
    }
    cov.update(extra_cov(extra))
    if hasattr(mod, 'evidence_extra'):
        cov.update(mod.evidence_extra(total))
    return {
        'property_id': prop, 'tier': tier, 'seed': seed, 'level': 'exploration',
        'coverage': cov, 'assumptions': desc.get('assumptions', []),
        'wall_s': round(wall, 2), 'violations': nviol,
    }


def extra_cov(extra):
    out = {}
    for k, v in extra.items():
        out['task_' + k] = v.get('report', {})
    return out


def replay(prop, path, out=sys.stdout):
    warm_up()
    from . import cleanroom
    cleanroom.ensure()
    mod = load_check(prop)
    with open(path) as fh:
        sc = json.load(fh)
    want = sc.get('invariant')
    if 'chunk_replay' in sc:
        cr = sc['chunk_replay']
        cfg = mod.config(cr['tier'], cr['seed']) if hasattr(mod, 'config') else {}
        cfg.setdefault('tier', cr['tier'])
        vs = []
        for i in range(cr['from_run'], cr['failing_run'] + 1):
            rng = seeds.rng_for(cr['seed'], prop + '/' + cr['stream'], i)
            one = mod.gen(cr['stream'], rng, i, cfg)
            one['_stream'], one['_run'], one['_seed'] = cr['stream'], i, cr['seed']
            vs = mod.execute(one, Counter())
    else:
        vs = mod.execute(sc, Counter())
    hit = [v for v in vs if want is None or v['invariant'] == want]
    if hit:
        print('VIOLATION property=%s replay=%s' % (prop, path), file=out)
        print('  invariant=%s sig=%s' % (hit[0]['invariant'], hit[0].get('sig')), file=out)
        print('  detail=%s' % json.dumps(hit[0].get('detail'), ensure_ascii=True)[:1000], file=out)
        return 1
    if vs:
        print('replay fails a different invariant: %s' % [v['invariant'] for v in vs], file=out)
        return 1
    print('replay %s: no violation on this tree' % path, file=out)
    return 0
