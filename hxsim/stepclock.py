"""Simulated time = executed-line count in frames of the code under test.

A StepClock is per thread (sys.settrace is per thread).  It provides
  * a step budget (bounded liveness): StepBudgetExceeded raised in the running frame,
  * interrupt injection: an arbitrary exception raised at an exact step,
  * a pre-emption hook for the thread scheduler,
  * the set of (file, line) pairs stepped on (reach), when enabled.
"""
import os
import sys

from . import REPO


class StepBudgetExceeded(BaseException):
    """The evaluation did not finish within its step budget."""


class SimTimeout(TimeoutError):
    """Models a signal handler that raises (time-limit idiom)."""


class SimAbort(BaseException):
    """Models KeyboardInterrupt / process-control aborts."""


def _prefixes():
    import ply
    pl = os.path.dirname(os.path.realpath(ply.__file__)) + os.sep
    return (os.path.join(REPO, 'hotxlfp') + os.sep, pl)


_WITH_CACHE = {}


def _is_with_line(frame):
    key = (frame.f_code.co_filename, frame.f_lineno)
    r = _WITH_CACHE.get(key)
    if r is None:
        import linecache
        line = linecache.getline(key[0], key[1] or 0).lstrip()
        r = _WITH_CACHE[key] = line.startswith(('with ', 'with(', 'async with '))
    return r


class StepClock(object):
    __slots__ = ('steps', 'limit', 'intr_at', 'intr_exc', 'next_event', 'hook', 'hook_at',
                 'reach', 'prefixes', '_glob', 'last_frame', 'fired', 'extra_prefixes', 'opcode', 'ref_calls', 'steplog')

    def __init__(self, reach=False, extra_prefixes=(), opcode=False, steplog=False):
        self.steps = 0
        self.steplog = [] if steplog else None    # file of every step, in order (for targeted sweeps)
        self.limit = None          # absolute step number at which the budget ends
        self.intr_at = None        # absolute step number for the injected interrupt
        self.intr_exc = None
        self.hook = None           # scheduler pre-emption hook: hook(clock, frame) -> next hook step
        self.hook_at = None
        self.next_event = float('inf')
        self.reach = set() if reach else None
        self.prefixes = _prefixes() + tuple(extra_prefixes)
        self.last_frame = None
        self.fired = None
        self.opcode = opcode
        self.ref_calls = 0         # calls into hotxlfp/parser.py call_* (reference / function-call sites evaluated)
        self._glob = self._make()

    def _recompute(self):
        n = float('inf')
        if self.limit is not None and self.limit < n:
            n = self.limit
        if self.intr_at is not None and self.intr_at < n:
            n = self.intr_at
        if self.hook_at is not None and self.hook_at < n:
            n = self.hook_at
        self.next_event = n

    def _event(self, frame):
        s = self.steps
        if self.intr_at is not None and s >= self.intr_at and _is_with_line(frame):
            # the implicit __exit__ step of a `with` block shows up as a line event, but no real signal or
            # asynchronous exception can land between the block and its __exit__ call: deliver one step later
            self.intr_at = s + 1
            self._recompute()
        elif self.intr_at is not None and s >= self.intr_at:
            exc = self.intr_exc
            self.intr_at = None
            self.intr_exc = None
            self._recompute()
            self.fired = (frame.f_code.co_filename, frame.f_lineno, frame.f_code.co_name)
            raise exc
        if self.limit is not None and s >= self.limit:
            self.last_frame = (frame.f_code.co_filename, frame.f_lineno, frame.f_code.co_name)
            self.limit = None
            self._recompute()
            raise StepBudgetExceeded('%d steps' % s)
        if self.hook_at is not None and s >= self.hook_at:
            self.hook_at = self.hook(self, frame)
            self._recompute()

    def _make(self):
        clock = self
        cache = {}
        prefixes = self.prefixes
        reach = self.reach
        opcode = self.opcode
        ev_name = 'opcode' if opcode else 'line'
        refmod = os.path.join('hotxlfp', 'parser.py')

        steplog = self.steplog
        if steplog is not None:
            def local(frame, event, arg):
                if event == ev_name:
                    s = clock.steps + 1
                    clock.steps = s
                    steplog.append(frame.f_code.co_filename)
                    if s >= clock.next_event:
                        clock._event(frame)
                return local
        elif reach is None:
            def local(frame, event, arg):
                if event == ev_name:
                    s = clock.steps + 1
                    clock.steps = s
                    if s >= clock.next_event:
                        clock._event(frame)
                return local
        else:
            def local(frame, event, arg):
                if event == ev_name:
                    s = clock.steps + 1
                    clock.steps = s
                    reach.add((frame.f_code.co_filename, frame.f_lineno))
                    if s >= clock.next_event:
                        clock._event(frame)
                return local

        def glob(frame, event, arg):
            code = frame.f_code
            ok = cache.get(code)
            if ok is None:
                ok = 1 if code.co_filename.startswith(prefixes) else 0
                if ok and code.co_name.startswith('call_') and code.co_filename.endswith(refmod):
                    ok = 2
                cache[code] = ok
            if ok:
                if ok == 2:
                    clock.ref_calls += 1
                if opcode:
                    frame.f_trace_opcodes = True
                    frame.f_trace_lines = False
                return local
            return None
        return glob

    # -- use -----------------------------------------------------------
    def arm(self, budget=None, interrupt=None):
        """Start tracing in the current thread.  budget: steps from now;
        interrupt: (steps_from_now, exception instance)."""
        self.limit = None if budget is None else self.steps + budget
        if interrupt is not None:
            self.intr_at = self.steps + max(1, interrupt[0])
            self.intr_exc = interrupt[1]
        else:
            self.intr_at = None
            self.intr_exc = None
        self.fired = None
        self._recompute()
        sys.settrace(self._glob)

    def disarm(self):
        sys.settrace(None)
        self.limit = None
        self.intr_at = None
        self.intr_exc = None
        self._recompute()

    def rel(self, path):
        for p in self.prefixes:
            if path.startswith(p):
                return os.path.basename(os.path.dirname(p)) + '/' + path[len(p):]
        return path

    def reach_list(self):
        if self.reach is None:
            return []
        return sorted(set((self.rel(f), l or 0) for f, l in self.reach))
