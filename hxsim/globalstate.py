"""Process-global interpreter settings an evaluation must leave as it found them (they are a channel
through which evaluations on different parsers / threads influence each other)."""
import decimal
import gc
import locale
import os
import sys
import warnings


def snapshot():
    ctx = decimal.getcontext()
    try:
        loc = locale.setlocale(locale.LC_ALL)
    except Exception:
        loc = None
    return {
        'sys.getrecursionlimit': sys.getrecursionlimit(),
        'sys.getswitchinterval': sys.getswitchinterval(),
        'sys.get_int_max_str_digits': sys.get_int_max_str_digits() if hasattr(sys, 'get_int_max_str_digits') else None,
        'warnings.filters': [repr(f) for f in warnings.filters],
        'decimal.context': [ctx.prec, ctx.rounding, ctx.Emin, ctx.Emax],
        'locale': loc,
        'gc': [gc.isenabled(), list(gc.get_threshold())],
        'cwd': os.getcwd(),
        'sys.dont_write_bytecode': sys.dont_write_bytecode,
        'float_repr_style': sys.float_repr_style,
    }


def diff(a, b):
    return dict((k, {'before': a[k], 'after': b.get(k)}) for k in a if a[k] != b.get(k))
